#!/bin/bash
# Entry point of every registered check.
#   check.sh <C11|C12|C13> <quick|thorough>    build the simulator against /repo's working tree, run, write evidence
#   check.sh replay <file>                      re-execute a replay file (exit 1 if it reproduces)
#   check.sh build                              build only (MANIFEST.setup_cmd)
# Exit codes: 0 property held on everything explored; 1 violation (VIOLATION line printed);
#             2 harness error (build failure, replay not reproducible, simulator not deterministic).
set -u
VERIF_DIR="$(cd "$(dirname "${BASH_SOURCE[0]}")" && pwd)"
export VERIF_DIR
export CARGO_NET_OFFLINE=true
cd "$VERIF_DIR/sim" || exit 2

build() {
    # aidl-parser is a path dependency on /repo with feature verif-hooks: cargo rebuilds it
    # whenever /repo's working tree changed.
    if ! cargo build --release --offline >"$VERIF_DIR/sim/build.log" 2>&1; then
        echo "HARNESS ERROR: build failed (see below)"
        grep -E "^(error|warning: unused)" -A12 "$VERIF_DIR/sim/build.log" | head -80
        return 2
    fi
    return 0
}

case "${1:-}" in
    build)
        build || exit 2
        ;;
    replay)
        build || exit 2
        exec "$VERIF_DIR/sim/target/release/aidl-sim" replay "${2:?replay file}"
        ;;
    C11|C12|C13)
        tier="${2:-${VERIF_TIER:-quick}}"
        build || exit 2
        exec "$VERIF_DIR/sim/target/release/aidl-sim" check "$1" "$tier"
        ;;
    *)
        echo "usage: check.sh <C11|C12|C13> <quick|thorough> | replay <file> | build"
        exit 2
        ;;
esac
