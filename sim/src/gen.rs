//! Document model -> AIDL text, seeded generation over a tiny, collision-prone universe,
//! and structural shrinking of documents.

use crate::rng::Rng;

pub const PKG_POOL: &[&str] = &["p", "q", "p.q", "android.os", "r.s.t"];
pub const NAME_POOL: &[&str] = &["Foo", "Bar", "Baz", "IFoo", "IBinder", "ParcelFileDescriptor"];
pub const BUILTIN_IMPORTS: &[&str] = &[
    "android.os.IBinder",
    "android.os.ParcelFileDescriptor",
    "java.os.FileDescriptor",
    "android.os.ParcelableHolder",
];
const PRIMS: &[&str] = &["int", "long", "boolean", "byte", "char", "float", "double", "short"];
const ANNOTS: &[&str] = &[
    "@nullable", "@utf8InCpp", "@VintfStability", "@UnsupportedAppUsage", "@Hide", "@Backing",
    "@NdkOnlyStableParcelable", "@JavaOnlyStableParcelable", "@RustOnlyStableParcelable", "@JavaDerive",
    "@JavaPassthrough", "@FixedSize", "@Descriptor", "@RustDerive", "@SuppressWarnings", "@Enforce",
    "@PermissionManuallyEnforced", "@RequiresNoPermission", "@PropagateAllowBlocking", "@JavaSuppressLint",
    "@SensitiveData", "@JavaDefault", "@JavaDelegator", "@JavaOnlyImmutable", "@Deprecated", "@Override",
    "@MyOwn",
];
const ANNOT_KEYS: &[&str] = &["type", "toString", "value", "equals", "size", "signed", "min", "Clone", "x", "y"];

#[derive(Clone, Debug, PartialEq)]
pub enum Ty {
    Void,
    Prim(String),
    Str,
    CharSeq,
    Named(String),
    Array(Box<Ty>),
    List(Option<Box<Ty>>),
    Map(Option<(Box<Ty>, Box<Ty>)>),
}

impl Ty {
    pub fn render(&self, out: &mut String) {
        match self {
            Ty::Void => out.push_str("void"),
            Ty::Prim(p) => out.push_str(p),
            Ty::Str => out.push_str("String"),
            Ty::CharSeq => out.push_str("CharSequence"),
            Ty::Named(n) => out.push_str(n),
            Ty::Array(t) => {
                t.render(out);
                out.push_str("[]");
            }
            Ty::List(None) => out.push_str("List"),
            Ty::List(Some(t)) => {
                out.push_str("List<");
                t.render(out);
                out.push('>');
            }
            Ty::Map(None) => out.push_str("Map"),
            Ty::Map(Some((k, v))) => {
                out.push_str("Map<");
                k.render(out);
                out.push_str(", ");
                v.render(out);
                out.push('>');
            }
        }
    }

    fn is_simple_int(&self) -> bool {
        matches!(self, Ty::Prim(p) if p == "int")
    }

    /// Smaller variants of this type
    fn shrink(&self) -> Vec<Ty> {
        let mut v = Vec::new();
        match self {
            Ty::Array(t) => {
                v.push((**t).clone());
                for s in t.shrink() {
                    v.push(Ty::Array(Box::new(s)));
                }
            }
            Ty::List(Some(t)) => {
                v.push((**t).clone());
                v.push(Ty::List(None));
                for s in t.shrink() {
                    v.push(Ty::List(Some(Box::new(s))));
                }
            }
            Ty::Map(Some((k, val))) => {
                v.push((**k).clone());
                v.push((**val).clone());
                v.push(Ty::Map(None));
                for s in k.shrink() {
                    v.push(Ty::Map(Some((Box::new(s), val.clone()))));
                }
                for s in val.shrink() {
                    v.push(Ty::Map(Some((k.clone(), Box::new(s)))));
                }
            }
            _ => {}
        }
        if !self.is_simple_int() {
            v.push(Ty::Prim("int".to_owned()));
        }
        v
    }
}

#[derive(Clone, Debug, PartialEq)]
pub struct Annot {
    pub name: String,
    pub params: Vec<(String, Option<String>)>,
}

impl Annot {
    fn render(&self, out: &mut String) {
        out.push_str(&self.name);
        if !self.params.is_empty() {
            out.push('(');
            for (i, (k, v)) in self.params.iter().enumerate() {
                if i > 0 {
                    out.push_str(", ");
                }
                out.push_str(k);
                if let Some(v) = v {
                    out.push('=');
                    out.push_str(v);
                }
            }
            out.push(')');
        }
        out.push(' ');
    }
}

#[derive(Clone, Debug, PartialEq)]
pub struct Arg {
    pub dir: Option<String>,
    pub ty: Ty,
    pub name: Option<String>,
    pub annots: Vec<Annot>,
}

#[derive(Clone, Debug, PartialEq)]
pub enum Member {
    Method {
        oneway: bool,
        ret: Ty,
        name: String,
        args: Vec<Arg>,
        code: Option<String>,
        annots: Vec<Annot>,
        doc: Option<String>,
    },
    Const {
        ty: Ty,
        name: String,
        value: String,
        doc: Option<String>,
    },
    Field {
        ty: Ty,
        name: String,
        value: Option<String>,
        annots: Vec<Annot>,
        doc: Option<String>,
    },
    EnumElem {
        name: String,
        value: Option<String>,
        doc: Option<String>,
    },
    /// tokens that are no member: the parser recovers ("Invalid ... element") and keeps the tree
    Junk(String),
}

#[derive(Clone, Copy, Debug, PartialEq, Eq, PartialOrd, Ord, Hash)]
pub enum Kind {
    Interface,
    Parcelable,
    Enum,
}

impl Kind {
    pub fn as_str(&self) -> &'static str {
        match self {
            Kind::Interface => "interface",
            Kind::Parcelable => "parcelable",
            Kind::Enum => "enum",
        }
    }
    pub const ALL: [Kind; 3] = [Kind::Interface, Kind::Parcelable, Kind::Enum];
}

#[derive(Clone, Debug, PartialEq)]
pub struct Doc {
    pub pkg: String,
    pub imports: Vec<String>,
    pub fwd: Vec<String>,
    pub kind: Kind,
    pub oneway: bool,
    pub name: String,
    pub annots: Vec<Annot>,
    pub doc: Option<String>,
    pub members: Vec<Member>,
    /// Unique per content version: rendered as a const / enum element named SERIAL
    pub serial: u64,
    /// Header (package, imports, forward declarations) on one line
    pub header_one_line: bool,
    /// All members on one line
    pub members_one_line: bool,
    /// Leading comment line (free text, ASCII)
    pub banner: Option<String>,
    /// Windows line endings
    pub crlf: bool,
    /// tabs instead of four spaces, blank lines at the top
    pub tabs: bool,
    /// a block comment of this many characters right after `package ...;` (pushes everything
    /// that follows on that line to very large columns when the header is on one line)
    pub col_pad: usize,
    /// this many blank lines at the top (very large line numbers)
    pub line_pad: usize,
    /// white space / comments around the dots of the package name, the imports and the forward
    /// declarations (the lexer skips trivia between any two tokens): 0 none, 1 `a. b`, 2 `a .b`,
    /// 3 `a./*x*/b`, 4 a line break after the dot
    pub dot_trivia: u8,
    /// annotations and doc comments in the places the grammar allows but documents rarely use:
    /// on forward declarations, on enum elements, doc comments on arguments
    pub odd_places: bool,
}

fn render_doc_comment(doc: &Option<String>, out: &mut String, sep: &str) {
    if let Some(d) = doc {
        out.push_str("/** ");
        out.push_str(d);
        out.push_str(" */");
        out.push_str(sep);
    }
}

fn dotted(name: &str, trivia: u8) -> String {
    match trivia {
        1 => name.replace('.', ". "),
        2 => name.replace('.', " ."),
        3 => name.replace('.', "./*x*/"),
        4 => name.replace('.', ".\n        "),
        _ => name.to_owned(),
    }
}

impl Doc {
    pub fn key(&self) -> String {
        format!("{}.{}", self.pkg, self.name)
    }

    pub fn render(&self) -> String {
        let mut s = String::new();
        if let Some(b) = &self.banner {
            s.push_str("// ");
            s.push_str(b);
            s.push('\n');
        }
        let hsep = if self.header_one_line { " " } else { "\n" };
        for _ in 0..self.line_pad {
            s.push('\n');
        }
        s.push_str("package ");
        s.push_str(&dotted(&self.pkg, self.dot_trivia));
        s.push(';');
        if self.col_pad > 0 {
            s.push_str(" /*");
            for _ in 0..self.col_pad {
                s.push('x');
            }
            s.push_str("*/");
        }
        s.push_str(hsep);
        for i in &self.imports {
            s.push_str("import ");
            s.push_str(&dotted(i, self.dot_trivia));
            s.push(';');
            s.push_str(hsep);
        }
        for f in &self.fwd {
            if self.odd_places {
                s.push_str("@Hide @JavaOnlyStableParcelable(x=1) ");
            }
            s.push_str("parcelable ");
            s.push_str(&dotted(f, self.dot_trivia));
            s.push(';');
            s.push_str(hsep);
        }
        if self.header_one_line {
            s.push('\n');
        }
        render_doc_comment(&self.doc, &mut s, "\n");
        for a in &self.annots {
            a.render(&mut s);
        }
        if self.oneway && self.kind == Kind::Interface {
            s.push_str("oneway ");
        }
        s.push_str(self.kind.as_str());
        s.push(' ');
        s.push_str(&self.name);
        s.push_str(" {");
        let msep = if self.members_one_line { " " } else { "\n    " };
        // The serial always comes first
        s.push_str(msep);
        match self.kind {
            Kind::Enum => {
                s.push_str(&format!("SERIAL = {},", self.serial));
            }
            _ => {
                s.push_str(&format!("const int SERIAL = {};", self.serial));
            }
        }
        for m in &self.members {
            s.push_str(msep);
            match m {
                Member::Method {
                    oneway,
                    ret,
                    name,
                    args,
                    code,
                    annots,
                    doc,
                } => {
                    render_doc_comment(doc, &mut s, msep);
                    for a in annots {
                        a.render(&mut s);
                    }
                    if *oneway {
                        s.push_str("oneway ");
                    }
                    ret.render(&mut s);
                    s.push(' ');
                    s.push_str(name);
                    s.push('(');
                    for (i, a) in args.iter().enumerate() {
                        if i > 0 {
                            s.push_str(", ");
                        }
                        if self.odd_places && i % 2 == 0 {
                            s.push_str("/** the argument */ ");
                        }
                        if let Some(d) = &a.dir {
                            s.push_str(d);
                            s.push(' ');
                        }
                        for an in &a.annots {
                            an.render(&mut s);
                        }
                        a.ty.render(&mut s);
                        if let Some(n) = &a.name {
                            s.push(' ');
                            s.push_str(n);
                        }
                    }
                    s.push(')');
                    if let Some(c) = code {
                        s.push_str(" = ");
                        s.push_str(c);
                    }
                    s.push(';');
                }
                Member::Const {
                    ty,
                    name,
                    value,
                    doc,
                } => {
                    render_doc_comment(doc, &mut s, msep);
                    s.push_str("const ");
                    ty.render(&mut s);
                    s.push(' ');
                    s.push_str(name);
                    s.push_str(" = ");
                    s.push_str(value);
                    s.push(';');
                }
                Member::Field {
                    ty,
                    name,
                    value,
                    annots,
                    doc,
                } => {
                    render_doc_comment(doc, &mut s, msep);
                    for a in annots {
                        a.render(&mut s);
                    }
                    ty.render(&mut s);
                    s.push(' ');
                    s.push_str(name);
                    if let Some(v) = value {
                        s.push_str(" = ");
                        s.push_str(v);
                    }
                    s.push(';');
                }
                Member::Junk(j) => {
                    s.push_str(j);
                }
                Member::EnumElem { name, value, doc } => {
                    render_doc_comment(doc, &mut s, msep);
                    if self.odd_places {
                        s.push_str("@Deprecated @Backing(type=\"int\") ");
                    }
                    s.push_str(name);
                    if let Some(v) = value {
                        s.push_str(" = ");
                        s.push_str(v);
                    }
                    s.push(',');
                }
            }
        }
        s.push_str(if self.members_one_line { " " } else { "\n" });
        s.push_str("}\n");
        if self.tabs {
            s = format!("\n\n{}", s.replace("\n    ", "\n\t"));
        }
        if self.crlf {
            s = s.replace('\n', "\r\n");
        }
        s
    }

    /// Structurally smaller variants (each differs from `self` by one simplification)
    pub fn shrink(&self) -> Vec<Doc> {
        let mut out = Vec::new();
        let mut push = |f: &dyn Fn(&mut Doc)| {
            let mut d = self.clone();
            f(&mut d);
            if d != *self {
                out.push(d);
            }
        };
        if !self.members.is_empty() {
            push(&|d| d.members.clear());
        }
        for i in 0..self.members.len() {
            push(&|d| {
                d.members.remove(i);
            });
        }
        for i in 0..self.imports.len() {
            push(&|d| {
                d.imports.remove(i);
            });
        }
        for i in 0..self.fwd.len() {
            push(&|d| {
                d.fwd.remove(i);
            });
        }
        push(&|d| d.annots.clear());
        push(&|d| d.doc = None);
        push(&|d| d.banner = None);
        push(&|d| d.crlf = false);
        push(&|d| d.tabs = false);
        push(&|d| d.dot_trivia = 0);
        push(&|d| d.odd_places = false);
        push(&|d| d.col_pad = 0);
        push(&|d| d.line_pad = 0);
        push(&|d| d.col_pad /= 2);
        push(&|d| d.line_pad /= 2);
        push(&|d| d.oneway = false);
        for (i, m) in self.members.iter().enumerate() {
            match m {
                Member::Method {
                    args, ret, annots, ..
                } => {
                    for j in 0..args.len() {
                        push(&|d| {
                            if let Member::Method { args, .. } = &mut d.members[i] {
                                args.remove(j);
                            }
                        });
                        for t in args[j].ty.shrink() {
                            push(&|d| {
                                if let Member::Method { args, .. } = &mut d.members[i] {
                                    args[j].ty = t.clone();
                                }
                            });
                        }
                        push(&|d| {
                            if let Member::Method { args, .. } = &mut d.members[i] {
                                args[j].dir = None;
                                args[j].annots.clear();
                            }
                        });
                    }
                    if *ret != Ty::Void {
                        push(&|d| {
                            if let Member::Method { ret, .. } = &mut d.members[i] {
                                *ret = Ty::Void;
                            }
                        });
                    }
                    let _ = annots;
                    push(&|d| {
                        if let Member::Method {
                            annots,
                            doc,
                            code,
                            oneway,
                            ..
                        } = &mut d.members[i]
                        {
                            annots.clear();
                            *doc = None;
                            *code = None;
                            *oneway = false;
                        }
                    });
                }
                Member::Field { ty, .. } => {
                    for t in ty.shrink() {
                        push(&|d| {
                            if let Member::Field { ty, .. } = &mut d.members[i] {
                                *ty = t.clone();
                            }
                        });
                    }
                    push(&|d| {
                        if let Member::Field {
                            annots, doc, value, ..
                        } = &mut d.members[i]
                        {
                            annots.clear();
                            *doc = None;
                            *value = None;
                        }
                    });
                }
                Member::Const { ty, .. } => {
                    for t in ty.shrink() {
                        push(&|d| {
                            if let Member::Const { ty, .. } = &mut d.members[i] {
                                *ty = t.clone();
                            }
                        });
                    }
                }
                Member::EnumElem { .. } | Member::Junk(_) => {}
            }
        }
        // Layout last: keeping one-line layouts matters for ordering violations
        push(&|d| d.header_one_line = false);
        push(&|d| d.members_one_line = false);
        out
    }
}

/// The name space of one simulated run
#[derive(Clone, Debug)]
pub struct Universe {
    pub pkgs: Vec<String>,
    pub names: Vec<String>,
}

impl Universe {
    pub fn generate(rng: &mut Rng) -> Universe {
        let np = rng.range(1, 3);
        let nn = rng.range(2, 4);
        let mut pkgs: Vec<String> = PKG_POOL.iter().map(|s| s.to_string()).collect();
        let mut names: Vec<String> = NAME_POOL.iter().map(|s| s.to_string()).collect();
        rng.shuffle(&mut pkgs);
        rng.shuffle(&mut names);
        pkgs.truncate(np);
        names.truncate(nn);
        if rng.pct(20) {
            // look-alike keys: differ only by case, or one is a prefix / suffix of the other
            let base = names[0].clone();
            // twins under the classic string hashes h*31+c / h*33+c: (x, y) -> (x+1, y-31)
            let twin = |m: u8| -> String {
                let b = base.as_bytes();
                for i in 0..b.len().saturating_sub(1) {
                    let (x, y) = (b[i], b[i + 1]);
                    if y > m && ((x + 1) as char).is_ascii_alphabetic() && ((y - m) as char).is_ascii_alphanumeric() && (i > 0 || ((x + 1) as char).is_ascii_alphabetic()) {
                        let mut v = b.to_vec();
                        v[i] = x + 1;
                        v[i + 1] = y - m;
                        return String::from_utf8(v).unwrap_or_else(|_| base.clone());
                    }
                }
                base.clone()
            };
            let variants = [
                base.to_uppercase(),
                base.to_lowercase(),
                format!("{base}Bar"),
                format!("My{base}"),
                format!("{base}_"),
                twin(31),
                twin(33),
            ];
            for _ in 0..rng.range(1, 2) {
                let v = rng.pick(&variants).clone();
                if !names.contains(&v) && v != "in" && v != "out" {
                    names.push(v);
                }
            }
            if rng.pct(50) {
                let pb = pkgs[0].clone();
                let pv = [pb.to_uppercase(), format!("{pb}.{pb}"), format!("x.{pb}"), format!("{pb}x"), format!("{pb}.{}", names[0])];
                let v = rng.pick(&pv).clone();
                if !pkgs.contains(&v) {
                    pkgs.push(v);
                }
            }
        }
        Universe { pkgs, names }
    }

    pub fn keys(&self) -> Vec<String> {
        let mut v = Vec::new();
        for p in &self.pkgs {
            for n in &self.names {
                v.push(format!("{p}.{n}"));
            }
        }
        v
    }
}

/// Dictionary harvested from the program under test: every `@word` that occurs inside a string
/// literal of /repo/src (annotation names, javadoc tags the library gives a meaning to). Rare
/// vocabulary that the code looks for becomes frequent in some runs. Deterministic for a
/// given source tree.
pub fn harvested_at_words() -> &'static Vec<String> {
    static WORDS: std::sync::OnceLock<Vec<String>> = std::sync::OnceLock::new();
    WORDS.get_or_init(|| {
        let mut out: std::collections::BTreeSet<String> = std::collections::BTreeSet::new();
        if let Ok(rd) = std::fs::read_dir("/repo/src") {
            let mut files: Vec<_> = rd.flatten().map(|e| e.path()).collect();
            files.sort();
            for f in files {
                let name = f.file_name().map(|n| n.to_string_lossy().to_string()).unwrap_or_default();
                if !(name.ends_with(".rs") || name.ends_with(".lalrpop")) || name == "verif.rs" {
                    continue;
                }
                let text = std::fs::read_to_string(&f).unwrap_or_default();
                let mut in_str = false;
                let mut prev = ' ';
                let mut word = String::new();
                let mut collecting = false;
                for c in text.chars() {
                    if c == '"' && prev != '\\' {
                        in_str = !in_str;
                    }
                    if in_str && c == '@' {
                        collecting = true;
                        word.clear();
                        word.push('@');
                    } else if collecting && (c.is_ascii_alphanumeric() || c == '_') {
                        word.push(c);
                    } else if collecting {
                        if word.len() >= 4 && word.len() <= 40 && word[1..].chars().next().map(|x| x.is_ascii_alphabetic()).unwrap_or(false) {
                            out.insert(word.clone());
                        }
                        collecting = false;
                    }
                    prev = c;
                }
            }
        }
        out.into_iter().take(200).collect()
    })
}

/// Plain words (identifier-shaped, 3-20 letters) found inside string literals of /repo/src:
/// candidates for member names (a library that gives a meaning to a particular identifier
/// names it somewhere).
pub fn harvested_idents() -> &'static Vec<String> {
    static WORDS: std::sync::OnceLock<Vec<String>> = std::sync::OnceLock::new();
    WORDS.get_or_init(|| {
        let mut out: std::collections::BTreeSet<String> = std::collections::BTreeSet::new();
        if let Ok(rd) = std::fs::read_dir("/repo/src") {
            let mut files: Vec<_> = rd.flatten().map(|e| e.path()).collect();
            files.sort();
            for f in files {
                let name = f.file_name().map(|n| n.to_string_lossy().to_string()).unwrap_or_default();
                if !(name.ends_with(".rs") || name.ends_with(".lalrpop")) || name == "verif.rs" || name == "rules.rs" {
                    continue;
                }
                let text = std::fs::read_to_string(&f).unwrap_or_default();
                let mut in_str = false;
                let mut prev = ' ';
                let mut word = String::new();
                for c in text.chars() {
                    if c == '"' && prev != '\\' {
                        in_str = !in_str;
                    }
                    if in_str && (c.is_ascii_alphabetic() || c == '_' || (!word.is_empty() && c.is_ascii_digit())) {
                        word.push(c);
                    } else {
                        if in_str || c == '"' {
                            if word.len() >= 3 && word.len() <= 20 && prev != '@' {
                                out.insert(word.clone());
                            }
                        }
                        word.clear();
                    }
                    prev = c;
                }
            }
        }
        out.into_iter().take(600).collect()
    })
}

/// Words of the current source tree's dictionary that are NOT in the dictionary of the tree the
/// simulator was built for (sim/baseline_dict.txt, regenerate with `aidl-sim dict`): the
/// vocabulary a change to the library introduced. Empty on the unchanged tree. Only ever used to
/// bias generation.
pub fn novel_words() -> &'static (Vec<String>, Vec<String>) {
    static WORDS: std::sync::OnceLock<(Vec<String>, Vec<String>)> = std::sync::OnceLock::new();
    WORDS.get_or_init(|| {
        let base: std::collections::BTreeSet<&str> = include_str!("../baseline_dict.txt").lines().collect();
        let at: Vec<String> = harvested_at_words().iter().filter(|w| !base.contains(w.as_str())).cloned().collect();
        let id: Vec<String> = harvested_idents().iter().filter(|w| !base.contains(w.as_str())).cloned().collect();
        (at, id)
    })
}

/// Punctuation literals of the grammar file that the baseline grammar does not have (a change
/// that extends the syntax names its new tokens there). Used to build a few odd imports / types.
pub fn novel_tokens() -> &'static Vec<String> {
    static TOKS: std::sync::OnceLock<Vec<String>> = std::sync::OnceLock::new();
    TOKS.get_or_init(|| {
        let base: std::collections::BTreeSet<&str> = include_str!("../baseline_dict.txt").lines().collect();
        let text = std::fs::read_to_string("/repo/src/aidl.lalrpop").unwrap_or_default();
        let mut out: std::collections::BTreeSet<String> = std::collections::BTreeSet::new();
        let b: Vec<char> = text.chars().collect();
        let mut i = 0;
        while i < b.len() {
            if b[i] == '"' {
                let mut j = i + 1;
                while j < b.len() && b[j] != '"' && b[j] != '\n' {
                    j += 1;
                }
                if j < b.len() && b[j] == '"' {
                    let lit: String = b[i + 1..j].iter().collect();
                    if !lit.is_empty() && lit.len() <= 3 && lit.chars().all(|c| c.is_ascii_punctuation()) {
                        let tagged = format!("token:{lit}");
                        if !base.contains(tagged.as_str()) {
                            out.insert(lit);
                        }
                    }
                }
                i = j + 1;
            } else {
                i += 1;
            }
        }
        out.into_iter().collect()
    })
}

/// All punctuation literals of the grammar file, tagged (for `aidl-sim dict`)
pub fn grammar_tokens_tagged() -> Vec<String> {
    let text = std::fs::read_to_string("/repo/src/aidl.lalrpop").unwrap_or_default();
    let mut out: std::collections::BTreeSet<String> = std::collections::BTreeSet::new();
    let b: Vec<char> = text.chars().collect();
    let mut i = 0;
    while i < b.len() {
        if b[i] == '"' {
            let mut j = i + 1;
            while j < b.len() && b[j] != '"' && b[j] != '\n' {
                j += 1;
            }
            if j < b.len() && b[j] == '"' {
                let lit: String = b[i + 1..j].iter().collect();
                if !lit.is_empty() && lit.len() <= 3 && lit.chars().all(|c| c.is_ascii_punctuation()) {
                    out.insert(format!("token:{lit}"));
                }
            }
            i = j + 1;
        } else {
            i += 1;
        }
    }
    out.into_iter().collect()
}

/// Per-run generation knobs (swarm)
#[derive(Clone, Debug)]
pub struct GenKnobs {
    pub p_header_one_line: u32,
    pub p_members_one_line: u32,
    pub max_imports: usize,
    pub max_fwd: usize,
    pub max_members: usize,
    pub p_ambiguous_import: u32,
    pub p_unknown_import: u32,
    pub p_builtin_import: u32,
    pub p_repeat_import: u32,
    pub p_container: u32,
    pub p_annot: u32,
    pub p_doc: u32,
    /// share of documents with very many imports / forward declarations / tie-producing members
    pub p_heavy: u32,
    /// per member slot: chance of an extra junk member (recovered syntax error)
    pub p_junk: u32,
    pub p_crlf: u32,
    /// non-ASCII text in the banner comment and in a string constant; block comments between members
    pub p_unicode: u32,
    pub p_block_comments: u32,
    /// imports that extend a key by one segment, or are a prefix of a key
    pub p_nested_import: u32,
    /// this run's favourite annotation names / doc texts, used with probability p_fav (swarm: a
    /// vocabulary item that is rare overall is frequent in some runs)
    pub fav_annots: Vec<String>,
    pub fav_docs: Vec<String>,
    /// favourite member names (methods, arguments, fields, constants, enum elements)
    pub fav_idents: Vec<String>,
    pub p_fav: u32,
}

impl GenKnobs {
    pub fn generate(rng: &mut Rng) -> GenKnobs {
        GenKnobs {
            p_header_one_line: *rng.pick(&[0, 20, 50, 90]),
            p_members_one_line: *rng.pick(&[0, 20, 50]),
            max_imports: rng.range(1, 5),
            max_fwd: rng.range(0, 2),
            max_members: rng.range(0, 4),
            p_ambiguous_import: *rng.pick(&[0, 15, 40]),
            p_unknown_import: *rng.pick(&[0, 10, 25]),
            p_builtin_import: *rng.pick(&[0, 10, 25]),
            p_repeat_import: *rng.pick(&[0, 5, 15]),
            p_container: *rng.pick(&[0, 20, 50]),
            p_annot: *rng.pick(&[0, 15, 40]),
            p_doc: *rng.pick(&[0, 15, 40]),
            p_heavy: *rng.pick(&[0, 0, 8, 30]),
            p_junk: *rng.pick(&[0, 0, 12, 35]),
            p_crlf: *rng.pick(&[0, 0, 15, 50]),
            p_unicode: *rng.pick(&[0, 0, 10, 30]),
            p_block_comments: *rng.pick(&[0, 0, 15, 40]),
            p_nested_import: *rng.pick(&[0, 8, 25]),
            fav_annots: (0..rng.range(1, 2))
                .map(|_| {
                    let h = harvested_at_words();
                    let n = &novel_words().0;
                    if !n.is_empty() && rng.pct(70) {
                        rng.pick(n).clone()
                    } else if !h.is_empty() && rng.pct(50) {
                        rng.pick(h).clone()
                    } else {
                        rng.pick(ANNOTS).to_string()
                    }
                })
                .collect(),
            fav_docs: (0..rng.range(1, 2))
                .map(|_| {
                    let h = harvested_at_words();
                    let n = &novel_words().0;
                    if !n.is_empty() && rng.pct(70) {
                        format!("{} something", rng.pick(n))
                    } else if !h.is_empty() && rng.pct(50) {
                        format!("{} something", rng.pick(h))
                    } else {
                        rng.pick(DOC_TEXTS).to_string()
                    }
                })
                .collect(),
            fav_idents: (0..rng.range(2, 4))
                .map(|_| {
                    let h = harvested_idents();
                    let n = &novel_words().1;
                    if !n.is_empty() && rng.pct(80) {
                        rng.pick(n).clone()
                    } else if !h.is_empty() && rng.pct(70) {
                        rng.pick(h).clone()
                    } else {
                        rng.pick(&["struct", "union", "class", "value", "id", "size", "type", "self", "async", "register", "NULL", "String", "in", "oneway"]).to_string()
                    }
                })
                .collect(),
            p_fav: if novel_words().0.is_empty() && novel_words().1.is_empty() {
                *rng.pick(&[0, 0, 60, 90])
            } else {
                *rng.pick(&[0, 60, 60, 90])
            },
        }
    }

    pub fn describe(&self) -> String {
        format!(
            "hol={} mol={} imp<={} fwd<={} mem<={} amb={} unk={} blt={} rep={} cont={} ann={} doc={} heavy={} junk={} crlf={} nested={}",
            self.p_header_one_line,
            self.p_members_one_line,
            self.max_imports,
            self.max_fwd,
            self.max_members,
            self.p_ambiguous_import,
            self.p_unknown_import,
            self.p_builtin_import,
            self.p_repeat_import,
            self.p_container,
            self.p_annot,
            self.p_doc,
            self.p_heavy,
            self.p_junk,
            self.p_crlf,
            self.p_nested_import
        )
    }
}

/// A member name: usually the systematic one, in favourite runs often a favourite identifier
fn member_name(rng: &mut Rng, k: &GenKnobs, systematic: String) -> String {
    if rng.pct(k.p_fav / 2) {
        rng.pick(&k.fav_idents).clone()
    } else {
        systematic
    }
}

fn gen_annots(rng: &mut Rng, k: &GenKnobs) -> Vec<Annot> {
    let mut v: Vec<Annot> = Vec::new();
    while rng.pct(if v.is_empty() { k.p_annot.max(k.p_fav) } else { k.p_annot }) && v.len() < 3 {
        if !v.is_empty() && rng.pct(15) {
            // the same annotation again
            let again: Annot = v[0].clone();
            v.push(again);
            continue;
        }
        let name = if rng.pct(k.p_fav) { rng.pick(&k.fav_annots).clone() } else { rng.pick(ANNOTS).to_string() };
        let mut params = Vec::new();
        // 0..2 parameters mostly, sometimes up to 5; keys distinct, sometimes one repeated
        let np = if rng.pct(25) { rng.range(2, 5) } else { rng.below(3) };
        let mut keys: Vec<&str> = ANNOT_KEYS.to_vec();
        rng.shuffle(&mut keys);
        for i in 0..np {
            let key = if i > 0 && rng.pct(5) { keys[0].to_string() } else { keys[i].to_string() };
            let val = match rng.below(4) {
                0 => None,
                1 => Some("true".to_owned()),
                2 => Some(format!("{}", rng.below(10))),
                _ => Some("\"x\"".to_owned()),
            };
            params.push((key, val));
        }
        v.push(Annot { name, params });
    }
    v
}

const DOC_TEXTS: &[&str] = &[
    "Documentation",
    "Be polite and say hello",
    "@param x the thing",
    "First line.\n     * Second line",
    "",
    "@deprecated use something else",
    "Old API.\n     * @deprecated since 2",
    "@hide",
    "{@hide}",
    "@return nothing\n     * @throws RemoteException sometimes",
    "@see p.Foo\n     * {@link q.Bar}",
    "@removed\n     * @SystemApi",
    "TODO: oneway? FixedSize? in out inout",
];

fn gen_doc_comment(rng: &mut Rng, k: &GenKnobs) -> Option<String> {
    if rng.pct(k.p_doc.max(k.p_fav * 2 / 3)) {
        Some(if rng.pct(k.p_fav) { rng.pick(&k.fav_docs).clone() } else { rng.pick(DOC_TEXTS).to_string() })
    } else {
        None
    }
}

/// Names a member type can refer to, given the header of the document
fn gen_base_type(rng: &mut Rng, u: &Universe, imports: &[String], fwd: &[String]) -> Ty {
    let w = [
        if imports.is_empty() { 0 } else { 45 }, // simple name of an import
        if fwd.is_empty() { 0 } else { 12 },     // forward-declared name
        if imports.is_empty() { 0 } else { 8 },  // fully qualified import
        if imports.is_empty() { 0 } else { 9 },  // partially qualified import / nested-type look
        10,                                      // primitive
        6,                                       // String / CharSequence
        6,                                       // built-in by name
        7,                                       // universe name, maybe not imported
    ];
    match rng.weighted(&w) {
        0 => {
            let i = rng.pick(imports);
            Ty::Named(i.rsplit('.').next().unwrap().to_owned())
        }
        1 => {
            let f = rng.pick(fwd);
            let parts: Vec<&str> = f.split('.').collect();
            if parts.len() >= 3 && rng.pct(60) {
                let from = rng.range(1, parts.len() - 2);
                Ty::Named(parts[from..].join("."))
            } else {
                Ty::Named(f.clone())
            }
        }
        2 => Ty::Named(rng.pick(imports).clone()),
        3 if rng.pct(35) => {
            // a nested-type look: <simple name of an import>.<Name>
            let i = rng.pick(imports);
            Ty::Named(format!("{}.{}", i.rsplit('.').next().unwrap(), rng.pick(&u.names)))
        }
        3 => {
            let i = rng.pick(imports);
            let parts: Vec<&str> = i.split('.').collect();
            if parts.len() >= 3 {
                let from = rng.range(1, parts.len() - 2);
                Ty::Named(parts[from..].join("."))
            } else {
                Ty::Named(parts[parts.len() - 1].to_owned())
            }
        }
        4 => Ty::Prim(rng.pick(PRIMS).to_string()),
        5 => {
            if rng.pct(70) {
                Ty::Str
            } else {
                Ty::CharSeq
            }
        }
        6 => Ty::Named(
            rng.pick(&[
                "IBinder",
                "FileDescriptor",
                "ParcelFileDescriptor",
                "ParcelableHolder",
                "android.os.ParcelFileDescriptor",
                "android.os.IBinder",
            ])
            .to_string(),
        ),
        _ => {
            if rng.pct(50) {
                Ty::Named(rng.pick(&u.names).clone())
            } else {
                Ty::Named(format!("{}.{}", rng.pick(&u.pkgs), rng.pick(&u.names)))
            }
        }
    }
}

fn gen_type(
    rng: &mut Rng,
    u: &Universe,
    k: &GenKnobs,
    imports: &[String],
    fwd: &[String],
    depth: usize,
) -> Ty {
    if depth < 3 && rng.pct(k.p_container) {
        match rng.below(6) {
            0 | 1 => Ty::Array(Box::new(gen_type(rng, u, k, imports, fwd, depth + 1))),
            2 | 3 => {
                if rng.pct(12) {
                    Ty::List(None)
                } else {
                    Ty::List(Some(Box::new(gen_type(rng, u, k, imports, fwd, depth + 1))))
                }
            }
            _ => {
                if rng.pct(12) {
                    Ty::Map(None)
                } else {
                    Ty::Map(Some((
                        Box::new(gen_type(rng, u, k, imports, fwd, depth + 1)),
                        Box::new(gen_type(rng, u, k, imports, fwd, depth + 1)),
                    )))
                }
            }
        }
    } else {
        gen_base_type(rng, u, imports, fwd)
    }
}

/// Generate the header (imports + forward declarations) of a document
pub fn gen_header(rng: &mut Rng, u: &Universe, k: &GenKnobs) -> (Vec<String>, Vec<String>) {
    let keys = u.keys();
    let n = rng.range(0, k.max_imports);
    let mut imports: Vec<String> = Vec::new();
    for _ in 0..n {
        let choice = if !imports.is_empty() && rng.pct(k.p_ambiguous_import) {
            // Same simple name, another package (of the universe or not)
            let base = rng.pick(&imports).clone();
            let simple = base.rsplit('.').next().unwrap().to_owned();
            let mut pk: Vec<String> = u.pkgs.clone();
            pk.push("zz".to_owned());
            pk.push("a.b".to_owned());
            let p = rng.pick(&pk).clone();
            format!("{p}.{simple}")
        } else if rng.pct(k.p_nested_import) {
            // one segment more than a key (nested-type look), or a proper prefix of a key
            let base = if !imports.is_empty() && rng.pct(40) { rng.pick(&imports).clone() } else { rng.pick(&keys).clone() };
            if rng.pct(60) {
                format!("{base}.{}", rng.pick(&u.names))
            } else {
                match base.rsplit_once('.') {
                    Some((prefix, _)) if prefix.contains('.') => prefix.to_owned(),
                    _ => format!("{base}.Inner"),
                }
            }
        } else if rng.pct(k.p_unknown_import) {
            rng.pick(&["x.y.Unknown", "p.Missing", "zz.Foo", "zz.Bar"])
                .to_string()
        } else if rng.pct(k.p_builtin_import) {
            rng.pick(BUILTIN_IMPORTS).to_string()
        } else if !imports.is_empty() && rng.pct(k.p_repeat_import) {
            rng.pick(&imports).clone()
        } else {
            rng.pick(&keys).clone()
        };
        imports.push(choice);
    }
    // syntax a change introduced: a new punctuation token in place of an import's last segment
    let nt = novel_tokens();
    if !nt.is_empty() {
        for i in 0..imports.len() {
            if rng.pct(35) {
                if let Some((head, _)) = imports[i].clone().rsplit_once('.') {
                    imports[i] = format!("{head}.{}", rng.pick(nt));
                }
            }
        }
    }
    let nf = rng.range(0, k.max_fwd);
    let mut fwd: Vec<String> = Vec::new();
    for _ in 0..nf {
        let f = match rng.below(10) {
            0..=4 => rng.pick(&u.names).clone(),
            5 | 6 if !imports.is_empty() => {
                // clash with an import's simple name
                rng.pick(&imports).rsplit('.').next().unwrap().to_owned()
            }
            7 => format!("{}.{}", rng.pick(&u.pkgs), rng.pick(&u.names)),
            9 => {
                // declarations with a path that share a dotted tail: a.m.Foo, zz.m.Foo (often both)
                let n = rng.pick(&u.names).clone();
                let mut heads = ["a", "zz", "b.c"];
                rng.shuffle(&mut heads);
                if rng.pct(70) {
                    fwd.push(format!("{}.m.{n}", heads[1]));
                }
                format!("{}.m.{n}", heads[0])
            }
            8 if !fwd.is_empty() => rng.pick(&fwd).clone(),
            _ => "Fwd".to_owned(),
        };
        fwd.push(f);
    }
    (imports, fwd)
}

pub fn gen_members(
    rng: &mut Rng,
    u: &Universe,
    k: &GenKnobs,
    kind: Kind,
    imports: &[String],
    fwd: &[String],
) -> Vec<Member> {
    let n = rng.range(0, k.max_members);
    let mut members = Vec::new();
    let with_codes = rng.below(4); // 0: none, 1: all, 2: mixed, 3: none
    for mi in 0..n {
        if rng.pct(k.p_junk) {
            members.push(Member::Junk(match kind {
                Kind::Interface => rng.pick(&["int int;", "void (;", "= 3;", "void f(int);;", "oneway;", "String[] [] x();"]).to_string(),
                Kind::Parcelable => rng.pick(&["int int;", "= 3;", "String;", "int x = ;", "[] y;"]).to_string(),
                Kind::Enum => rng.pick(&["= 3,", "1,", "A B,", "int,"]).to_string(),
            }));
        }
        match kind {
            Kind::Interface => {
                if rng.pct(12) {
                    members.push(Member::Const {
                        ty: if rng.pct(70) {
                            Ty::Prim("int".to_owned())
                        } else {
                            gen_type(rng, u, k, imports, fwd, 2)
                        },
                        name: member_name(rng, k, format!("C{mi}")),
                        value: if !imports.is_empty() && rng.pct(30) {
                            // a reference to a constant of an imported item: Name.CONST
                            format!("{}.{}", rng.pick(imports).rsplit('.').next().unwrap(), rng.pick(&["LOW", "SERIAL", "E0"]))
                        } else {
                            rng.pick(&["1", "\"s\"", "true", "1.5f", "{}", "{ 1, 2 }", "0x", "-1", "+2", ".5", "-0.5f", "{ 1 2, 3, }", "\"\""]).to_string()
                        },
                        doc: gen_doc_comment(rng, k),
                    });
                    continue;
                }
                let na = rng.range(0, 3);
                let mut args = Vec::new();
                for ai in 0..na {
                    args.push(Arg {
                        dir: match rng.below(5) {
                            0 => None,
                            1 | 2 => Some("in".to_owned()),
                            3 => Some("out".to_owned()),
                            _ => Some("inout".to_owned()),
                        },
                        ty: gen_type(rng, u, k, imports, fwd, 0),
                        name: if rng.pct(80) {
                            Some(member_name(rng, k, format!("a{ai}")))
                        } else {
                            None
                        },
                        annots: gen_annots(rng, k),
                    });
                }
                let code = match with_codes {
                    1 => Some(format!("{}", rng.below(4))),
                    2 if rng.pct(50) => Some(format!("{}", rng.below(4))),
                    _ => None,
                };
                // boundary values of the usual integer widths, leading zeros, overflow
                let code = if code.is_some() && rng.pct(12) {
                    Some(
                        rng.pick(&[
                            "99999999999", "4294967295", "4294967296", "2147483647", "2147483648", "16777215",
                            "16777216", "65535", "65536", "255", "256", "007", "00", "18446744073709551616",
                        ])
                        .to_string(),
                    )
                } else {
                    code
                };
                members.push(Member::Method {
                    oneway: rng.pct(15),
                    ret: if rng.pct(50) {
                        Ty::Void
                    } else {
                        gen_type(rng, u, k, imports, fwd, 1)
                    },
                    name: if rng.pct(10) {
                        "m0".to_owned()
                    } else {
                        member_name(rng, k, format!("m{mi}"))
                    },
                    args,
                    code,
                    annots: gen_annots(rng, k),
                    doc: gen_doc_comment(rng, k),
                });
            }
            Kind::Parcelable => {
                members.push(Member::Field {
                    ty: gen_type(rng, u, k, imports, fwd, 0),
                    name: member_name(rng, k, format!("f{mi}")),
                    value: if !imports.is_empty() && rng.pct(8) {
                        Some(format!("{}.{}", rng.pick(imports).rsplit('.').next().unwrap(), rng.pick(&["LOW", "SERIAL", "E0"])))
                    } else if rng.pct(15) {
                        Some(rng.pick(&["1", "\"v\"", "{}"]).to_string())
                    } else {
                        None
                    },
                    annots: gen_annots(rng, k),
                    doc: gen_doc_comment(rng, k),
                });
            }
            Kind::Enum => {
                members.push(Member::EnumElem {
                    name: member_name(rng, k, format!("E{mi}")),
                    value: if rng.pct(50) {
                        Some(format!("{}", rng.below(9)))
                    } else if rng.pct(10) {
                        Some(rng.pick(&["\"s\"", "true", "-1", "1.5f", "4294967296"]).to_string())
                    } else {
                        None
                    },
                    doc: gen_doc_comment(rng, k),
                });
            }
        }
    }
    members
}

/// A complete document registering `pkg.name` with the given kind
pub fn gen_doc(
    rng: &mut Rng,
    u: &Universe,
    k: &GenKnobs,
    pkg: &str,
    name: &str,
    kind: Kind,
    serial: u64,
) -> Doc {
    let heavy = rng.pct(k.p_heavy);
    let (mut imports, mut fwd) = gen_header(rng, u, k);
    let mut members = gen_members(rng, u, k, kind, &imports, &fwd);
    if heavy {
        // many hash-ordered warnings plus many pairs of diagnostics with the same start position
        // sizes around the usual thresholds of small-vector / cap / batching code: 16, 32, 64
        let ni = match rng.below(22) {
            0..=12 => rng.range(6, 16),
            13..=15 => rng.range(30, 40),
            16 | 17 => rng.range(62, 72),
            18 => rng.range(126, 136),
            19 => rng.range(254, 264),
            _ => rng.range(97, 104), // decimal thresholds
        };
        for i in 0..ni {
            imports.push(if rng.pct(70) {
                format!("zz.U{i}")
            } else {
                rng.pick(&u.keys()).clone()
            });
        }
        let nf = if rng.pct(85) { rng.range(3, 9) } else { rng.range(30, 40) };
        for i in 0..nf {
            fwd.push(if rng.pct(85) { format!("Fw{i}") } else { format!("Fw{}", rng.below(nf)) });
        }
        if kind == Kind::Interface {
            let nm = if rng.pct(85) { rng.range(3, 8) } else { rng.range(30, 40) };
            for mi in 0..nm {
                let na = rng.range(1, 3);
                let mut args = Vec::new();
                for ai in 0..na {
                    args.push(Arg {
                        dir: if rng.pct(60) { Some("out".to_owned()) } else { None },
                        ty: match rng.below(4) {
                            0 => Ty::List(None),
                            1 => Ty::Map(None),
                            2 => Ty::Prim("int".to_owned()),
                            _ => gen_type(rng, u, k, &imports, &fwd, 1),
                        },
                        name: Some(format!("h{ai}")),
                        annots: vec![],
                    });
                }
                members.push(Member::Method {
                    oneway: rng.pct(70),
                    ret: if rng.pct(70) { Ty::Void } else { Ty::Named("Nope".to_owned()) },
                    name: format!("h{mi}"),
                    args,
                    code: None,
                    annots: vec![],
                    doc: None,
                });
            }
        }
    }
    let unicode = rng.pct(k.p_unicode);
    if unicode && kind != Kind::Enum {
        members.push(Member::Const {
            ty: Ty::Str,
            name: "U".to_owned(),
            value: "\"caf\u{e9} 10\u{20ac}\"".to_owned(),
            doc: None,
        });
    }
    if rng.pct(k.p_block_comments) {
        // comments and odd white space between members (they render as members that are only trivia)
        let n = rng.range(1, 3);
        for _ in 0..n {
            let at = rng.below(members.len() + 1);
            members.insert(
                at,
                Member::Junk(rng.pick(&["/* block */", "/* multi\n   line */", "// line comment\n", "\t\t", "/*a*//*b*/"]).to_string()),
            );
        }
    }
    Doc {
        pkg: pkg.to_owned(),
        imports,
        fwd,
        kind,
        oneway: kind == Kind::Interface && rng.pct(12),
        name: name.to_owned(),
        annots: gen_annots(rng, k),
        doc: gen_doc_comment(rng, k),
        members,
        serial,
        header_one_line: rng.pct(k.p_header_one_line),
        members_one_line: rng.pct(k.p_members_one_line),
        banner: if unicode {
            Some("g\u{e9}n\u{e9}r\u{e9} \u{fc}ber \u{6f22}\u{5b57} \u{1f600}".to_owned())
        } else if rng.pct(10) {
            Some("generated".to_owned())
        } else {
            None
        },
        crlf: rng.pct(k.p_crlf),
        tabs: rng.pct(k.p_block_comments / 2),
        // sizes around 2^8, 2^12 and 2^16: packed positions, narrow integer types
        col_pad: if rng.pct(k.p_heavy / 3 + 1) { *rng.pick(&[250usize, 260, 4090, 4200, 4200, 65530, 66000]) } else { 0 },
        odd_places: rng.pct(k.p_annot / 3 + 2),
        dot_trivia: if rng.pct(k.p_block_comments / 2 + 2) { rng.range(1, 4) as u8 } else { 0 },
        line_pad: if rng.pct(k.p_heavy / 6 + 1) { *rng.pick(&[250usize, 260, 4090, 4200, 66000]) } else { 0 },
    }
}

/// Text that is not a well-formed document (derived from one, or junk)
pub fn gen_malformed(rng: &mut Rng, base: &Doc) -> String {
    let text = base.render();
    match rng.below(9) {
        0 => String::new(),
        1 => rng
            .pick(&[
                "}{",
                "package",
                "interface I {}",
                "package p; interface {",
                ";;;",
                "package p.; enum E { A, }",
                "/* unterminated",
                "package p; import q.Foo parcelable X;",
            ])
            .to_string(),
        2 | 3 => {
            // delete 1..3 tokens
            let mut toks: Vec<&str> = text.split_inclusive(|c: char| c.is_whitespace()).collect();
            let n = rng.range(1, 3);
            for _ in 0..n {
                if toks.len() > 1 {
                    let i = rng.below(toks.len());
                    toks.remove(i);
                }
            }
            toks.concat()
        }
        4 => {
            // cut at a random character boundary
            let mut at = rng.below(text.len().max(1)).min(text.len());
            while !text.is_char_boundary(at) {
                at -= 1;
            }
            text[..at].to_owned()
        }
        7 | 8 => {
            // several recovered element errors, then an item that never closes: no tree, many diagnostics
            let lines: Vec<&str> = text.split_inclusive('\n').collect();
            let mut out = String::new();
            let mut in_body = false;
            for l in lines.iter() {
                if l.starts_with('}') {
                    continue; // drop the closing brace
                }
                out.push_str(l);
                if in_body && rng.pct(60) {
                    out.push_str(*rng.pick(&["    int int;\n", "    = 3;\n", "    void ( );\n", "    ] x;\n"]));
                }
                if l.contains('{') {
                    in_body = true;
                    out.push_str("    , , ;\n");
                }
            }
            out
        }
        5 => {
            // duplicate a random line
            let lines: Vec<&str> = text.split_inclusive('\n').collect();
            let i = rng.below(lines.len());
            let mut out = String::new();
            for (j, l) in lines.iter().enumerate() {
                out.push_str(l);
                if i == j {
                    out.push_str(l);
                }
            }
            out
        }
        _ => {
            // replace a random character by a character that starts no token
            let chars: Vec<char> = text.chars().collect();
            if chars.is_empty() {
                return text;
            }
            let i = rng.below(chars.len());
            let r = *rng.pick(&['#', '$', '%', '?', '`', '~']);
            chars
                .iter()
                .enumerate()
                .map(|(j, c)| if i == j { r } else { *c })
                .collect()
        }
    }
}

/// Smaller variants of a raw text: line-wise, then chunk-wise deletion
pub fn shrink_raw(text: &str) -> Vec<String> {
    let mut out = Vec::new();
    if text.is_empty() {
        return out;
    }
    out.push(String::new());
    let lines: Vec<&str> = text.split_inclusive('\n').collect();
    if lines.len() > 1 {
        for i in 0..lines.len() {
            let mut s = String::new();
            for (j, l) in lines.iter().enumerate() {
                if i != j {
                    s.push_str(l);
                }
            }
            out.push(s);
        }
    }
    // statement-wise deletion (split after `;`)
    let stmts: Vec<&str> = text.split_inclusive(';').collect();
    if stmts.len() > 1 && stmts.len() <= 40 {
        for i in 0..stmts.len() {
            let mut s = String::new();
            for (j, l) in stmts.iter().enumerate() {
                if i != j {
                    s.push_str(l);
                }
            }
            out.push(s);
        }
    }
    out
}
