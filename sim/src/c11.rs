//! C11 - validation output is a pure function of the set of (id, content) pairs, and
//! diagnostics are listed in ascending order of start position.
//!
//! One simulated run = one project + several *executions* of "create a parser, add every
//! file, validate r times". The executions differ only in things the output must not depend
//! on: insertion order, hash keys of every table instance (seam H1), caller thread of every
//! step, number of repetitions. One execution is repeated verbatim on fresh threads (twin).

use crate::canon::{self, Outcome};
use crate::exec::{self, Callers, Policy, P};
use crate::gen::{self, GenKnobs, Kind, Universe};
use crate::json::J;
use crate::rng::{Digest, Rng};
use crate::scenario::{self, jusize_arr, parse_usize_arr, pb, Content, Violation};
use std::collections::{BTreeMap, BTreeSet};
use std::path::PathBuf;

/// One API call of an execution. Every script ends in the state "exactly the project's files".
#[derive(Clone, Debug, PartialEq)]
pub enum C11Op {
    /// add_content(id of file i, text of file i)
    Add(usize),
    /// detour: add_content(id of file i, text of alternative content k); overwritten later by Add(i)
    AddAlt { file: usize, alt: usize },
    /// detour: add_content("extra/<k>.aidl", text of alternative content k); removed later
    AddExtra(usize),
    RemoveExtra(usize),
    /// detour: remove_content(id of file i); re-added later by Add(i)
    Remove(usize),
    /// detour: an intermediate validate() whose result is only compared for panics
    Validate,
}

#[derive(Clone, Debug, PartialEq)]
pub struct C11Exec {
    pub script: Vec<C11Op>,
    pub policy: Policy,
    pub n_callers: usize,
    /// caller of: parser creation, each script op, the final validation step
    pub callers: Vec<usize>,
    /// number of back-to-back final validations (all on one caller thread)
    pub repeats: usize,
    /// salt of the caller set (PerCaller base keys); a twin has the salt of its original
    pub salt: u64,
    /// verbatim repetition of that execution on fresh threads
    pub twin_of: Option<usize>,
    /// run on the caller threads of that (earlier) execution instead of fresh ones
    pub reuse_threads_of: Option<usize>,
    /// before the execution, every caller parses this many unrelated, distinct contents
    pub warmup: usize,
    /// the first validation after the last mutation is made by this many threads at once (0: none)
    pub concurrent: usize,
}

impl C11Exec {
    /// Order in which the final contents are inserted
    pub fn order(&self) -> Vec<usize> {
        let mut last: Vec<usize> = Vec::new();
        for op in &self.script {
            if let C11Op::Add(i) = op {
                last.retain(|x| x != i);
                last.push(*i);
            }
        }
        last
    }

    pub fn has_detour(&self) -> bool {
        self.script.iter().any(|o| !matches!(o, C11Op::Add(_)))
            || self.order().len() != self.script.len()
    }

    /// Does the script end with exactly files 0..n, each with its own content?
    pub fn ends_in_project(&self, n_files: usize, n_alts: usize) -> bool {
        let mut ids: Vec<Option<bool>> = vec![None; n_files]; // Some(true): own content
        let mut extras: Vec<bool> = vec![false; n_alts];
        for op in &self.script {
            match op {
                C11Op::Add(i) if *i < n_files => ids[*i] = Some(true),
                C11Op::AddAlt { file, alt } if *file < n_files && *alt < n_alts => ids[*file] = Some(false),
                C11Op::AddExtra(k) if *k < n_alts => extras[*k] = true,
                C11Op::RemoveExtra(k) if *k < n_alts => extras[*k] = false,
                C11Op::Remove(i) if *i < n_files => ids[*i] = None,
                C11Op::Validate => {}
                _ => return false,
            }
        }
        ids.iter().all(|x| *x == Some(true)) && extras.iter().all(|x| !*x)
    }
}

#[derive(Clone, Debug, PartialEq)]
pub struct C11Scenario {
    pub files: Vec<(String, Content)>,
    /// alternative contents used by detours only
    pub alts: Vec<Content>,
    pub execs: Vec<C11Exec>,
}

pub struct C11Knobs {
    pub gen: GenKnobs,
    pub n_files: usize,
    pub p_dup_key: u32,
    pub p_malformed: u32,
    pub n_execs: usize,
}

pub fn generate(rng: &mut Rng, thorough: bool) -> (C11Scenario, String) {
    let u = Universe::generate(rng);
    let gk = GenKnobs::generate(rng);
    let size_class = rng.below(1000);
    let huge = size_class >= 997;
    let n_files = if size_class < 800 {
        rng.range(1, 6)
    } else if size_class < 960 {
        rng.range(7, 12)
    } else if huge {
        rng.range(258, 300) // beyond the 256-entry thresholds
    } else if thorough && rng.pct(25) {
        rng.range(65, 110) // beyond the 64-entry and 100-entry thresholds
    } else if thorough {
        rng.range(17, 40)
    } else {
        rng.range(13, 20)
    };
    let knobs = C11Knobs {
        gen: gk,
        n_files,
        p_dup_key: *rng.pick(&[0u32, 10, 35]),
        p_malformed: *rng.pick(&[0u32, 8, 25]),
        n_execs: if huge { rng.range(2, 3) } else { rng.range(4, 8) },
    };
    // files
    let mut paths: Vec<PathBuf> = Vec::new();
    let mut files: Vec<(String, Content)> = Vec::new();
    let mut used_keys: Vec<(String, String)> = Vec::new();
    let mut pool_idx: Vec<usize> = (0..scenario::PATH_POOL.len()).collect();
    rng.shuffle(&mut pool_idx);
    let mut next_pool = 0usize;
    for i in 0..knobs.n_files {
        // distinct ids under PathBuf equality
        let path = loop {
            let cand = if next_pool < pool_idx.len() && rng.pct(70) {
                next_pool += 1;
                scenario::path_for(pool_idx[next_pool - 1])
            } else {
                scenario::path_for(scenario::PATH_POOL.len() + i)
            };
            if !paths.contains(&pb(&cand)) {
                break cand;
            }
        };
        paths.push(pb(&path));
        let (pkg, name) = if !used_keys.is_empty() && rng.pct(knobs.p_dup_key) {
            rng.pick(&used_keys).clone()
        } else {
            let mut tries = 0;
            loop {
                let c = (rng.pick(&u.pkgs).clone(), rng.pick(&u.names).clone());
                tries += 1;
                if !used_keys.contains(&c) || tries > 6 {
                    break c;
                }
            }
        };
        used_keys.push((pkg.clone(), name.clone()));
        let kind = *rng.pick(&Kind::ALL);
        let name = if huge && rng.pct(85) { format!("N{i}") } else { name };
        let doc = gen::gen_doc(rng, &u, &knobs.gen, &pkg, &name, kind, 1000 + i as u64);
        let content = if rng.pct(knobs.p_malformed) {
            Content::Raw(gen::gen_malformed(rng, &doc))
        } else {
            Content::Doc(doc)
        };
        files.push((path, content));
    }
    // alternative contents for detours: prefer keys that are imported but not defined
    let mut defined: BTreeSet<String> = BTreeSet::new();
    let mut imported: Vec<String> = Vec::new();
    for (_, c) in &files {
        if let Some(d) = c.as_doc() {
            defined.insert(d.key());
            for i in &d.imports {
                if i.matches('.').count() >= 1 {
                    imported.push(i.clone());
                }
            }
        }
    }
    let undefined: Vec<String> = imported.iter().filter(|k| !defined.contains(*k)).cloned().collect();
    let n_alts = rng.range(1, 3);
    let mut alts: Vec<Content> = Vec::new();
    for a in 0..n_alts {
        let key = if !undefined.is_empty() && rng.pct(60) {
            rng.pick(&undefined).clone()
        } else if !imported.is_empty() && rng.pct(50) {
            rng.pick(&imported).clone()
        } else {
            rng.pick(&u.keys()).clone()
        };
        let (pkg, name) = key.rsplit_once('.').unwrap_or(("p", "Foo"));
        let kind = *rng.pick(&Kind::ALL);
        let doc = gen::gen_doc(rng, &u, &knobs.gen, pkg, name, kind, 5000 + a as u64);
        alts.push(if rng.pct(15) {
            Content::Raw(gen::gen_malformed(rng, &doc))
        } else {
            Content::Doc(doc)
        });
    }
    // executions
    let n = files.len();
    let mut execs = Vec::new();
    execs.push(C11Exec {
        script: (0..n).map(C11Op::Add).collect(),
        policy: Policy::Const(0),
        n_callers: 1,
        callers: vec![0; n + 2],
        repeats: 1,
        salt: 0,
        twin_of: None,
        reuse_threads_of: None,
        warmup: 0,
        concurrent: 0,
    });
    let p_detour = *rng.pick(&[0u32, 25, 50]);
    let p_reuse = *rng.pick(&[0u32, 0, 10, 35]);
    let p_concurrent = *rng.pick(&[0u32, 10, 30]);
    for e in 1..knobs.n_execs {
        let mut order: Vec<usize> = (0..n).collect();
        match rng.below(4) {
            0 => order.reverse(),
            1 => {
                let r = rng.below(n.max(1));
                order.rotate_left(r);
            }
            _ => rng.shuffle(&mut order),
        }
        let mut script: Vec<C11Op> = order.iter().map(|i| C11Op::Add(*i)).collect();
        if rng.pct(p_detour) {
            // 1..3 detours through other states; the final state is the project again
            let p_validate = *rng.pick(&[30u32, 70, 100]);
            for _ in 0..rng.range(1, 3) {
                let k = rng.below(alts.len());
                let fi = rng.below(n);
                let pos_add = script.iter().position(|o| *o == C11Op::Add(fi)).unwrap_or(0);
                let mut ins: Vec<(usize, Vec<C11Op>)> = Vec::new();
                let val = |rng: &mut Rng, v: &mut Vec<C11Op>| {
                    if rng.pct(p_validate) {
                        v.push(C11Op::Validate);
                    }
                };
                match rng.below(4) {
                    0 => {
                        // an extra file comes and goes
                        if script.iter().any(|o| matches!(o, C11Op::AddExtra(x) if *x == k)) {
                            continue;
                        }
                        let a = rng.below(script.len() + 1);
                        let b = rng.range(a, script.len());
                        let mut v1 = vec![C11Op::AddExtra(k)];
                        val(rng, &mut v1);
                        let mut v2 = vec![C11Op::RemoveExtra(k)];
                        val(rng, &mut v2);
                        ins.push((b, v2));
                        ins.push((a, v1));
                    }
                    1 => {
                        // the id first holds another content
                        let a = rng.below(pos_add + 1);
                        let mut v = vec![C11Op::AddAlt { file: fi, alt: k }];
                        val(rng, &mut v);
                        ins.push((a, v));
                    }
                    2 => {
                        // removed and re-added
                        let mut v = Vec::new();
                        val(rng, &mut v);
                        v.push(C11Op::Remove(fi));
                        val(rng, &mut v);
                        v.push(C11Op::Add(fi));
                        let a = rng.range(pos_add + 1, script.len());
                        ins.push((a, v));
                    }
                    _ => {
                        // replaced by another content and back
                        let mut v = Vec::new();
                        val(rng, &mut v);
                        v.push(C11Op::AddAlt { file: fi, alt: k });
                        val(rng, &mut v);
                        v.push(C11Op::Add(fi));
                        let a = rng.range(pos_add + 1, script.len());
                        ins.push((a, v));
                    }
                }
                // insert from the back so that positions stay valid
                ins.sort_by(|x, y| y.0.cmp(&x.0));
                for (at, ops) in ins {
                    for (j, op) in ops.into_iter().enumerate() {
                        script.insert(at + j, op);
                    }
                }
            }
        }
        let key = match rng.below(3) {
            0 => rng.below(16) as u64,
            _ => rng.next_u64(),
        };
        let policy = match rng.below(10) {
            0..=3 => Policy::Const(key),
            4..=7 => Policy::Stream(key),
            _ => Policy::PerCaller(key),
        };
        // used threads: run on the callers of an earlier execution, maybe after they did other work
        let (reuse_threads_of, warmup) = if rng.pct(p_reuse) {
            let of = rng.below(e);
            let w = match rng.below(10) {
                0..=5 => 0,
                6 | 7 => rng.range(1, 12),
                _ => rng.range(64, 140),
            };
            (Some(of), w)
        } else {
            (None, 0)
        };
        let n_callers = if warmup > 12 { rng.range(1, 2) } else { rng.range(1, 4) };
        let callers = (0..script.len() + 2).map(|_| rng.below(n_callers)).collect();
        let repeats = if rng.pct(6) { rng.range(20, 150) } else { rng.range(1, 3) };
        let ex = C11Exec {
            script,
            policy,
            n_callers,
            callers,
            repeats,
            salt: e as u64,
            twin_of: None,
            reuse_threads_of,
            warmup,
            concurrent: if rng.pct(p_concurrent) { rng.range(2, 4) } else { 0 },
        };
        debug_assert!(ex.ends_in_project(n, alts.len()));
        execs.push(ex);
    }
    // verbatim twin of one execution (one that starts on fresh threads)
    let fresh: Vec<usize> = (0..execs.len()).filter(|i| execs[*i].reuse_threads_of.is_none()).collect();
    let of = *rng.pick(&fresh);
    let mut twin = execs[of].clone();
    twin.twin_of = Some(of);
    execs.push(twin);
    let desc = format!(
        "files={} dup={} malformed={} execs={} detour={} reuse={} universe={}x{} {}",
        knobs.n_files,
        knobs.p_dup_key,
        knobs.p_malformed,
        execs.len(),
        p_detour,
        p_reuse,
        u.pkgs.len(),
        u.names.len(),
        knobs.gen.describe()
    );
    (C11Scenario { files, alts, execs }, desc)
}

/// Run one execution against the real library. Returns the final observations; of a long
/// series of repetitions only the first one and the first one that differs from it are kept.
/// Repeated validations of one parser whose results are `==` but print differently through
/// `Debug` (iteration order of a hash container inside the tree). Not a violation of C11 as
/// decided by the library's own equality; counted and reported as a NOTE.
pub static DEBUG_ONLY_DIFFERENCES: std::sync::atomic::AtomicU64 = std::sync::atomic::AtomicU64::new(0);

pub fn execute(texts: &[(PathBuf, String)], alts: &[String], e: &C11Exec, callers: &Callers) -> Vec<Outcome> {
    let policy = e.policy;
    if e.warmup > 0 {
        for c in 0..e.n_callers {
            let (n, salt) = (e.warmup, e.salt);
            callers.exec(c, move || {
                policy.install(u64::MAX - 1);
                let mut p = P::new();
                for w in 0..n {
                    let text = format!("package warm; parcelable W{salt}x{c}x{w} {{ int f; }}");
                    let _ = exec::add_content(&mut p, PathBuf::from(format!("warm/{w}.aidl")), &text);
                }
                let _ = exec::observe(&p);
            });
        }
    }
    let caller_of = |i: usize| e.callers.get(i).copied().unwrap_or(0);
    // executions with an odd salt build their parser with `Parser::default()`
    let use_default = e.salt % 2 == 1;
    let mut parser: P = callers.exec(caller_of(0), move || {
        policy.install(0);
        if use_default {
            P::default()
        } else {
            P::new()
        }
    });
    let mut step = 1u64;
    for (pos, op) in e.script.iter().enumerate() {
        let c = caller_of(pos + 1);
        let add: Option<(PathBuf, String)> = match op {
            C11Op::Add(i) => Some(texts[*i].clone()),
            C11Op::AddAlt { file, alt } => Some((texts[*file].0.clone(), alts[*alt].clone())),
            C11Op::AddExtra(k) => Some((PathBuf::from(format!("extra/{k}.aidl")), alts[*k].clone())),
            _ => None,
        };
        let remove: Option<PathBuf> = match op {
            C11Op::RemoveExtra(k) => Some(PathBuf::from(format!("extra/{k}.aidl"))),
            C11Op::Remove(i) => Some(texts[*i].0.clone()),
            _ => None,
        };
        let (p, panic) = callers.exec(c, move || {
            policy.install(step);
            let mut parser = parser;
            let mut panic = None;
            if let Some((path, text)) = add {
                panic = exec::add_content(&mut parser, path.clone(), &text)
                    .map(|m| format!("add_content({}): {m}", path.display()));
            } else if let Some(path) = remove {
                parser.remove_content(path);
            } else if let Outcome::Panic(m) = exec::observe(&parser) {
                panic = Some(format!("intermediate validate(): {m}"));
            }
            (parser, panic)
        });
        parser = p;
        if let Some(m) = panic {
            return vec![Outcome::Panic(m)];
        }
        step += 1;
    }
    let repeats = e.repeats.max(1);
    let concurrent = e.concurrent;
    callers.exec(caller_of(e.script.len() + 1), move || {
        let mut v = Vec::new();
        if concurrent > 1 {
            // several threads validate the shared parser at once, before anybody else did
            if let Some(outs) = exec::observe_concurrently(&parser, concurrent, policy, step + 1000) {
                v.extend(outs);
            }
        }
        let first_seq = v.len();
        for r in 0..repeats {
            policy.install(step + r as u64);
            let o = exec::observe(&parser);
            if r == 1 {
                if let (Outcome::Ok(a), Outcome::Ok(b)) = (&v[first_seq], &o) {
                    if canon::first_difference(&v[first_seq], &o).is_none() && format!("{a:?}") != format!("{b:?}") {
                        DEBUG_ONLY_DIFFERENCES.fetch_add(1, std::sync::atomic::Ordering::Relaxed);
                    }
                }
            }
            if r == 0 || r % 16 == 5 {
                // a client works with the result on this thread before it validates again
                exec::use_public_api(&o);
            }
            if r < 3 {
                v.push(o);
            } else if canon::first_difference(&v[first_seq], &o).is_some() {
                v.push(o);
                break;
            }
        }
        // the parser is dropped on this caller
        v
    })
}

#[derive(Default, Clone)]
pub struct C11Probes {
    pub multi_import_file: bool,
    pub ambiguous_simple_name: bool,
    pub fwd_clash: bool,
    pub duplicate_key: bool,
    pub duplicate_key_kinds_differ: bool,
    pub same_line_diags: bool,
    pub treeless_multi_diag: bool,
    pub configs_differ: bool,
    pub thread_reuse: bool,
    pub concurrent_validate: bool,
    pub thread_reuse_after_64_contents: bool,
    pub files: usize,
    pub diagnostics: usize,
    pub panics: usize,
}

impl C11Probes {
    pub fn nontrivial(&self) -> bool {
        (self.multi_import_file
            || self.ambiguous_simple_name
            || self.fwd_clash
            || self.duplicate_key
            || self.same_line_diags)
            && self.configs_differ
    }
}

pub struct C11Run {
    pub violation: Option<Violation>,
    pub probes: C11Probes,
    /// digest of the scenario alone (generation is independent of the library)
    pub gen_digest: u64,
    /// digest of everything the library returned
    pub out_digest: u64,
    pub executions: usize,
    pub steps: usize,
    pub table_policies: BTreeMap<&'static str, usize>,
    /// one digest per execution configuration (schedule: script shape, callers, policy, reuse)
    pub schedules: Vec<u64>,
}

fn ordering_violation(o: &Outcome) -> Option<(String, String)> {
    if let Outcome::Ok(m) = o {
        for (k, r) in m {
            for w in r.diagnostics.windows(2) {
                let a = w[0].range.start.line_col;
                let b = w[1].range.start.line_col;
                if a > b {
                    return Some((
                        format!("{}", k.display()),
                        format!(
                            "diagnostic at {}:{} is listed before diagnostic at {}:{} (tree: {})",
                            a.0,
                            a.1,
                            b.0,
                            b.1,
                            if r.ast.is_some() { "yes" } else { "no" }
                        ),
                    ));
                }
            }
        }
    }
    None
}

pub fn scenario_digest(s: &C11Scenario) -> u64 {
    let mut d = Digest::new();
    d.str(&to_json(s).to_string_compact());
    d.finish()
}

pub fn run(s: &C11Scenario) -> C11Run {
    let texts: Vec<(PathBuf, String)> = s.files.iter().map(|(p, c)| (pb(p), c.text())).collect();
    let alt_texts: Vec<String> = s.alts.iter().map(|c| c.text()).collect();
    let mut probes = C11Probes {
        files: s.files.len(),
        ..Default::default()
    };
    // static probes (document models only)
    let mut keys: BTreeMap<String, BTreeSet<Kind>> = BTreeMap::new();
    let mut key_count: BTreeMap<String, usize> = BTreeMap::new();
    for (_, c) in &s.files {
        if let Some(d) = c.as_doc() {
            let distinct: BTreeSet<&String> = d.imports.iter().collect();
            if distinct.len() + d.fwd.len() >= 2 {
                probes.multi_import_file = true;
            }
            let mut simple: BTreeMap<&str, BTreeSet<&String>> = BTreeMap::new();
            for i in &d.imports {
                simple
                    .entry(i.rsplit('.').next().unwrap())
                    .or_default()
                    .insert(i);
            }
            if simple.values().any(|v| v.len() >= 2) {
                probes.ambiguous_simple_name = true;
            }
            for f in &d.fwd {
                let fs = f.rsplit('.').next().unwrap();
                if simple.get(fs).map(|v| v.len() >= 2).unwrap_or(false) {
                    probes.fwd_clash = true;
                }
            }
            keys.entry(d.key()).or_default().insert(d.kind);
            *key_count.entry(d.key()).or_default() += 1;
        }
    }
    probes.duplicate_key = key_count.values().any(|c| *c >= 2);
    probes.duplicate_key_kinds_differ = keys.values().any(|k| k.len() >= 2);
    probes.configs_differ = s.execs.len() >= 2
        && s.execs.iter().any(|e| {
            e.twin_of.is_none() && (e.script != s.execs[0].script || e.policy != s.execs[0].policy)
        });

    let mut out = Digest::new();
    let mut violation: Option<Violation> = None;
    let mut all: Vec<Vec<Outcome>> = Vec::new();
    let mut steps = 0usize;
    let mut table_policies: BTreeMap<&'static str, usize> = BTreeMap::new();
    let mut caller_sets: Vec<std::rc::Rc<Callers>> = Vec::new();
    let mut schedules: Vec<u64> = Vec::new();
    for (ei, e) in s.execs.iter().enumerate() {
        let callers = match e.reuse_threads_of {
            Some(of) if of < ei => caller_sets[of].clone(),
            _ => std::rc::Rc::new(Callers::new(e.n_callers, e.policy, e.salt)),
        };
        caller_sets.push(callers.clone());
        if e.concurrent > 1 {
            probes.concurrent_validate = true;
        }
        if e.reuse_threads_of.is_some() {
            probes.thread_reuse = true;
            if e.warmup >= 64 {
                probes.thread_reuse_after_64_contents = true;
            }
        }
        {
            let mut d = Digest::new();
            d.str(&script_str(&e.script));
            d.str(&format!("{:?}", e.callers));
            d.str(&format!("{:?} {} {:?} {} {}", e.policy, e.repeats, e.reuse_threads_of, e.warmup, e.concurrent));
            schedules.push(d.finish());
        }
        let o = execute(&texts, &alt_texts, e, &callers);
        steps += e.script.len() + 1 + e.repeats;
        *table_policies.entry(e.policy.name()).or_default() += 1;
        for x in &o {
            out.str(&canon::canon_outcome(x));
            if matches!(x, Outcome::Panic(_)) {
                probes.panics += 1;
            }
        }
        all.push(o);
    }
    // dynamic probes from the canonical execution
    if let Some(Outcome::Ok(m)) = all.first().and_then(|v| v.first()) {
        for r in m.values() {
            probes.diagnostics += r.diagnostics.len();
            let mut lines = BTreeSet::new();
            for d in &r.diagnostics {
                if !lines.insert(d.range.start.line_col.0) {
                    probes.same_line_diags = true;
                }
            }
            if r.ast.is_none() && r.diagnostics.len() >= 2 {
                probes.treeless_multi_diag = true;
            }
        }
    }

    // Oracle (b): ascending start positions, in every observation
    'outer: for (ei, os) in all.iter().enumerate() {
        for (ri, o) in os.iter().enumerate() {
            if let Some((file, what)) = ordering_violation(o) {
                violation = Some(Violation {
                    property: "C11",
                    clause: "order".to_owned(),
                    signature: "order".to_owned(),
                    detail: format!("execution {ei} repetition {ri}, file {file}: {what}"),
                    left: excerpt(o, &file),
                    right: String::new(),
                });
                break 'outer;
            }
        }
    }
    // Oracle (c): the verbatim twin equals its original
    if violation.is_none() {
        for (ei, e) in s.execs.iter().enumerate() {
            if let Some(of) = e.twin_of {
                if of < all.len() {
                    let n = all[ei].len().min(all[of].len());
                    for r in 0..n {
                        if let Some((file, what)) = canon::first_difference(&all[of][r], &all[ei][r]) {
                            violation = Some(Violation {
                                property: "C11",
                                clause: "uncontrolled".to_owned(),
                                signature: format!("uncontrolled:{what}"),
                                detail: format!(
                                    "execution {ei} repeats execution {of} verbatim (same order, keys, callers) on fresh threads, yet file {file} differs in its {what}: some nondeterminism is not behind a seam"
                                ),
                                left: excerpt(&all[of][r], &file),
                                right: excerpt(&all[ei][r], &file),
                            });
                            break;
                        }
                    }
                }
            }
            if violation.is_some() {
                break;
            }
        }
    }
    // Oracle (a): every observation of every execution equals the canonical one
    if violation.is_none() {
        let base = &all[0][0];
        'outer2: for (ei, os) in all.iter().enumerate() {
            for (ri, o) in os.iter().enumerate() {
                if ei == 0 && ri == 0 {
                    continue;
                }
                if let Some((file, what)) = canon::first_difference(base, o) {
                    let e = &s.execs[ei];
                    let e0 = &s.execs[0];
                    let mut why: Vec<&str> = Vec::new();
                    if e.policy != e0.policy {
                        why.push("hash keys");
                    }
                    if e.order() != e0.order() {
                        why.push("insertion order");
                    }
                    if e.has_detour() {
                        why.push("detour through other states (replace / remove / extra file)");
                    }
                    if e.reuse_threads_of.is_some() {
                        why.push("caller threads that were used before");
                    }
                    if why.is_empty() {
                        why.push("repetition / caller thread");
                    }
                    let why = why.join(", ");
                    violation = Some(Violation {
                        property: "C11",
                        clause: "differs".to_owned(),
                        signature: format!("differs:{what}"),
                        detail: format!(
                            "execution {ei} repetition {ri} ({:?}, script {}) differs from execution 0 in the {what} of file {file}; the executions differ in: {why}",
                            e.policy, script_str(&e.script)
                        ),
                        left: excerpt(base, &file),
                        right: excerpt(o, &file),
                    });
                    break 'outer2;
                }
            }
        }
    }
    C11Run {
        violation,
        probes,
        gen_digest: scenario_digest(s),
        out_digest: out.finish(),
        executions: s.execs.len(),
        steps,
        table_policies,
        schedules,
    }
}

/// The canonical text of one file's result (or the panic) for reports
pub fn excerpt(o: &Outcome, file: &str) -> String {
    match o {
        Outcome::Panic(m) => format!("PANIC {m}"),
        Outcome::Ok(m) => match m.iter().find(|(k, _)| format!("{}", k.display()) == file) {
            Some((_, r)) => {
                let mut s = String::new();
                if let Some(t) = &r.ast {
                    s.push_str(&format!("resolved: {:?}\n", canon::resolved_kinds(t)));
                } else {
                    s.push_str("tree=none\n");
                }
                for d in &r.diagnostics {
                    s.push_str(&canon::diag_line(d));
                    s.push('\n');
                }
                s
            }
            None => "<absent>".to_owned(),
        },
    }
}

// ---------------------------------------------------------------------------------------------
// JSON
// ---------------------------------------------------------------------------------------------

pub fn script_str(v: &[C11Op]) -> String {
    let parts: Vec<String> = v
        .iter()
        .map(|o| match o {
            C11Op::Add(i) => format!("+{i}"),
            C11Op::AddAlt { file, alt } => format!("+{file}:alt{alt}"),
            C11Op::AddExtra(k) => format!("+x{k}"),
            C11Op::RemoveExtra(k) => format!("-x{k}"),
            C11Op::Remove(i) => format!("-{i}"),
            C11Op::Validate => "v".to_owned(),
        })
        .collect();
    format!("[{}]", parts.join(" "))
}

fn script_json(v: &[C11Op]) -> J {
    J::Arr(
        v.iter()
            .map(|o| match o {
                C11Op::Add(i) => J::obj().set("add", J::u(*i as u64)),
                C11Op::AddAlt { file, alt } => J::obj().set("add_alt", jusize_arr(&[*file, *alt])),
                C11Op::AddExtra(k) => J::obj().set("add_extra", J::u(*k as u64)),
                C11Op::RemoveExtra(k) => J::obj().set("remove_extra", J::u(*k as u64)),
                C11Op::Remove(i) => J::obj().set("remove", J::u(*i as u64)),
                C11Op::Validate => J::s("validate"),
            })
            .collect(),
    )
}

fn script_from_json(j: &J) -> Result<Vec<C11Op>, String> {
    let mut v = Vec::new();
    for o in j.as_arr().ok_or("script must be an array")? {
        let n = |k: &str| o.get(k).and_then(|x| x.as_u64()).map(|x| x as usize);
        if o.as_str() == Some("validate") {
            v.push(C11Op::Validate);
        } else if let Some(i) = n("add") {
            v.push(C11Op::Add(i));
        } else if let Some(k) = n("add_extra") {
            v.push(C11Op::AddExtra(k));
        } else if let Some(k) = n("remove_extra") {
            v.push(C11Op::RemoveExtra(k));
        } else if let Some(i) = n("remove") {
            v.push(C11Op::Remove(i));
        } else if o.get("add_alt").is_some() {
            let a = parse_usize_arr(o.get("add_alt"))?;
            if a.len() != 2 {
                return Err("add_alt needs [file, alt]".to_owned());
            }
            v.push(C11Op::AddAlt { file: a[0], alt: a[1] });
        } else {
            return Err("unknown script op".to_owned());
        }
    }
    Ok(v)
}

pub fn to_json(s: &C11Scenario) -> J {
    J::obj()
        .set(
            "files",
            J::Arr(
                s.files
                    .iter()
                    .map(|(p, c)| J::obj().set("path", J::s(p.clone())).set("text", J::s(c.text())))
                    .collect(),
            ),
        )
        .set("alts", J::Arr(s.alts.iter().map(|c| J::s(c.text())).collect()))
        .set(
            "executions",
            J::Arr(
                s.execs
                    .iter()
                    .map(|e| {
                        let mut o = J::obj()
                            .set("script", script_json(&e.script))
                            .set("policy", e.policy.to_json())
                            .set("n_callers", J::u(e.n_callers as u64))
                            .set("callers", jusize_arr(&e.callers))
                            .set("repeats", J::u(e.repeats as u64))
                            .set("salt", J::u_str(e.salt));
                        if let Some(t) = e.twin_of {
                            o.put("twin_of", J::u(t as u64));
                        }
                        if let Some(t) = e.reuse_threads_of {
                            o.put("reuse_threads_of", J::u(t as u64));
                        }
                        if e.warmup > 0 {
                            o.put("warmup", J::u(e.warmup as u64));
                        }
                        if e.concurrent > 0 {
                            o.put("concurrent", J::u(e.concurrent as u64));
                        }
                        o
                    })
                    .collect(),
            ),
        )
}

pub fn from_json(j: &J) -> Result<C11Scenario, String> {
    let mut files = Vec::new();
    for f in j.get("files").and_then(|f| f.as_arr()).ok_or("files missing")? {
        files.push((
            f.get("path").and_then(|p| p.as_str()).ok_or("path missing")?.to_owned(),
            Content::Raw(f.get("text").and_then(|p| p.as_str()).ok_or("text missing")?.to_owned()),
        ));
    }
    let mut execs = Vec::new();
    for e in j
        .get("executions")
        .and_then(|f| f.as_arr())
        .ok_or("executions missing")?
    {
        execs.push(C11Exec {
            script: script_from_json(e.get("script").ok_or("script missing")?)?,
            policy: Policy::from_json(e.get("policy").ok_or("policy missing")?)?,
            n_callers: e.get("n_callers").and_then(|v| v.as_u64()).ok_or("n_callers")? as usize,
            callers: parse_usize_arr(e.get("callers"))?,
            repeats: e.get("repeats").and_then(|v| v.as_u64()).ok_or("repeats")? as usize,
            salt: e.get("salt").and_then(|v| v.as_u64()).ok_or("salt")?,
            twin_of: e.get("twin_of").and_then(|v| v.as_u64()).map(|v| v as usize),
            reuse_threads_of: e.get("reuse_threads_of").and_then(|v| v.as_u64()).map(|v| v as usize),
            warmup: e.get("warmup").and_then(|v| v.as_u64()).unwrap_or(0) as usize,
            concurrent: e.get("concurrent").and_then(|v| v.as_u64()).unwrap_or(0) as usize,
        });
    }
    let mut alts = Vec::new();
    if let Some(a) = j.get("alts").and_then(|a| a.as_arr()) {
        for x in a {
            alts.push(Content::Raw(x.as_str().ok_or("alt text expected")?.to_owned()));
        }
    }
    for e in &execs {
        if !e.ends_in_project(files.len(), alts.len()) {
            return Err("an execution does not end in the project's state".to_owned());
        }
        if e.n_callers == 0 {
            return Err("n_callers is 0".to_owned());
        }
    }
    if execs.is_empty() {
        return Err("no executions".to_owned());
    }
    Ok(C11Scenario { files, alts, execs })
}

// ---------------------------------------------------------------------------------------------
// Shrinking
// ---------------------------------------------------------------------------------------------

/// Candidate scenarios, each smaller / simpler than `s` by one step. Ordered: big cuts first.
pub fn shrink_candidates(s: &C11Scenario) -> (Vec<C11Scenario>, usize) {
    let mut out = Vec::new();
    // drop executions (never execution 0; fix up twin indices)
    for ei in (1..s.execs.len()).rev() {
        let mut c = s.clone();
        c.execs.remove(ei);
        if s.execs.iter().any(|e| e.reuse_threads_of == Some(ei)) {
            continue; // somebody runs on this execution's threads
        }
        for e in c.execs.iter_mut() {
            if let Some(t) = e.reuse_threads_of {
                if t > ei {
                    e.reuse_threads_of = Some(t - 1);
                }
            }
        }
        let mut ok = true;
        for e in c.execs.iter_mut() {
            if let Some(t) = e.twin_of {
                if t == ei {
                    ok = false;
                } else if t > ei {
                    e.twin_of = Some(t - 1);
                }
            }
        }
        if ok {
            out.push(c);
        } else {
            // dropping the original of a twin: drop the twin too
            let mut c2 = s.clone();
            let twin_idx: Vec<usize> = c2
                .execs
                .iter()
                .enumerate()
                .filter(|(_, e)| e.twin_of == Some(ei))
                .map(|(i, _)| i)
                .collect();
            let mut rm: Vec<usize> = twin_idx;
            rm.push(ei);
            rm.sort();
            rm.dedup();
            for i in rm.iter().rev() {
                c2.execs.remove(*i);
            }
            let mut fine = !c2.execs.is_empty();
            for e in c2.execs.iter_mut() {
                if let Some(t) = e.reuse_threads_of {
                    let shift = rm.iter().filter(|r| **r < t).count();
                    if rm.contains(&t) {
                        fine = false;
                    }
                    e.reuse_threads_of = Some(t - shift.min(t));
                }
                if let Some(t) = e.twin_of {
                    let shift = rm.iter().filter(|r| **r < t).count();
                    if rm.contains(&t) {
                        fine = false;
                    }
                    e.twin_of = Some(t - shift);
                }
            }
            if fine {
                out.push(c2);
            }
        }
    }
    // drop detour ops (keep only candidates that still end in the project's state)
    for ei in 0..s.execs.len() {
        let e = &s.execs[ei];
        if e.twin_of.is_some() || !e.has_detour() {
            continue;
        }
        let twins: Vec<usize> = s
            .execs
            .iter()
            .enumerate()
            .filter(|(_, t)| t.twin_of == Some(ei))
            .map(|(i, _)| i)
            .collect();
        let mut variants: Vec<C11Exec> = Vec::new();
        // all detours at once
        let mut plain = e.clone();
        plain.script = e.order().into_iter().map(C11Op::Add).collect();
        plain.callers = vec![0; plain.script.len() + 2];
        variants.push(plain);
        for k in 0..e.script.len() {
            let mut v = e.clone();
            v.script.remove(k);
            if k + 1 < v.callers.len() {
                v.callers.remove(k + 1);
            }
            variants.push(v);
            // pairs: AddExtra + RemoveExtra
            if let C11Op::AddExtra(x) = e.script[k] {
                if let Some(k2) = e.script.iter().position(|o| *o == C11Op::RemoveExtra(x)) {
                    let mut v = e.clone();
                    let (a, b) = if k < k2 { (k, k2) } else { (k2, k) };
                    v.script.remove(b);
                    v.script.remove(a);
                    if b + 1 < v.callers.len() {
                        v.callers.remove(b + 1);
                    }
                    if a + 1 < v.callers.len() {
                        v.callers.remove(a + 1);
                    }
                    variants.push(v);
                }
            }
        }
        for v in variants {
            if !v.ends_in_project(s.files.len(), s.alts.len()) {
                continue;
            }
            let mut c = s.clone();
            c.execs[ei] = v.clone();
            for t in &twins {
                let mut tv = v.clone();
                tv.twin_of = Some(ei);
                c.execs[*t] = tv;
            }
            out.push(c);
        }
    }
    // drop files
    for fi in (0..s.files.len()).rev() {
        let mut c = s.clone();
        c.files.remove(fi);
        for e in c.execs.iter_mut() {
            let mut k = 0;
            while k < e.script.len() {
                let hit = match &e.script[k] {
                    C11Op::Add(i) | C11Op::Remove(i) => *i == fi,
                    C11Op::AddAlt { file, .. } => *file == fi,
                    _ => false,
                };
                if hit {
                    e.script.remove(k);
                    if k + 1 < e.callers.len() {
                        e.callers.remove(k + 1);
                    }
                } else {
                    match &mut e.script[k] {
                        C11Op::Add(i) | C11Op::Remove(i) => {
                            if *i > fi {
                                *i -= 1;
                            }
                        }
                        C11Op::AddAlt { file, .. } => {
                            if *file > fi {
                                *file -= 1;
                            }
                        }
                        _ => {}
                    }
                    k += 1;
                }
            }
        }
        if c.execs.iter().all(|e| e.ends_in_project(c.files.len(), c.alts.len())) {
            out.push(c);
        }
    }
    // simplify executions
    for ei in 0..s.execs.len() {
        let e = &s.execs[ei];
        if e.twin_of.is_some() {
            continue;
        }
        let twins: Vec<usize> = s
            .execs
            .iter()
            .enumerate()
            .filter(|(_, t)| t.twin_of == Some(ei))
            .map(|(i, _)| i)
            .collect();
        let mut variants: Vec<C11Exec> = Vec::new();
        if e.reuse_threads_of.is_some() {
            let mut v = e.clone();
            v.reuse_threads_of = None;
            v.warmup = 0;
            variants.push(v);
        }
        if e.warmup > 0 {
            let mut v = e.clone();
            v.warmup = 0;
            variants.push(v);
            if e.warmup > 3 {
                let mut v = e.clone();
                v.warmup = e.warmup * 3 / 4;
                variants.push(v);
            }
        }
        if e.concurrent > 0 {
            let mut v = e.clone();
            v.concurrent = 0;
            variants.push(v);
        }
        if e.repeats > 1 {
            let mut v = e.clone();
            v.repeats = 1;
            variants.push(v);
            if e.repeats > 4 {
                let mut v = e.clone();
                v.repeats = e.repeats / 2;
                variants.push(v);
            }
        }
        if e.n_callers > 1 || e.callers.iter().any(|c| *c != 0) {
            let mut v = e.clone();
            v.n_callers = 1;
            v.callers = vec![0; e.callers.len()];
            variants.push(v);
        }
        if ei != 0 {
            if !e.has_detour() {
                let sorted: Vec<C11Op> = (0..s.files.len()).map(C11Op::Add).collect();
                if e.script != sorted {
                    let mut v = e.clone();
                    v.script = sorted;
                    variants.push(v);
                }
            }
            for p in [Policy::Const(0), Policy::Const(1), Policy::Const(2)] {
                if e.policy != p {
                    let mut v = e.clone();
                    v.policy = p;
                    variants.push(v);
                }
            }
            if let Policy::Stream(k) | Policy::PerCaller(k) = e.policy {
                let mut v = e.clone();
                v.policy = Policy::Const(k);
                variants.push(v);
            }
        }
        for v in variants {
            let mut c = s.clone();
            c.execs[ei] = v.clone();
            for t in &twins {
                let mut tv = v.clone();
                tv.twin_of = Some(ei);
                c.execs[*t] = tv;
            }
            out.push(c);
        }
    }
    let content_start = out.len();
    // shrink alternative contents
    for ai in 0..s.alts.len() {
        for smaller in s.alts[ai].shrink() {
            let mut c = s.clone();
            c.alts[ai] = smaller;
            out.push(c);
        }
    }
    // shrink contents
    for fi in 0..s.files.len() {
        for smaller in s.files[fi].1.shrink() {
            let mut c = s.clone();
            c.files[fi].1 = smaller;
            out.push(c);
        }
    }
    (out, content_start)
}
