//! History scenarios (C12, C13): one long-lived `Parser<PathBuf>`, a sequence of API calls
//! issued by several callers, a simulated disk with fault plans.
//! This file: types, JSON, generation, shrinking. Execution and oracles: `hist_run.rs`.

use crate::exec::{ErrK, FaultPlan, Policy, ReadEv};
use crate::gen::{self, Doc, GenKnobs, Kind, Universe};
use crate::json::{self, J};
use crate::rng::Rng;
use crate::scenario::{self, disk_slot, pb, Content};
use crate::scn::Prop;
use std::collections::BTreeMap;
use std::path::PathBuf;

pub use crate::hist_run::run;

#[derive(Clone, Copy, Debug, PartialEq, Eq)]
pub enum ArgKind {
    Str,
    String,
    Path,
    PathBuf,
}

impl ArgKind {
    pub const ALL: [ArgKind; 4] = [ArgKind::Str, ArgKind::String, ArgKind::Path, ArgKind::PathBuf];
    pub fn name(&self) -> &'static str {
        match self {
            ArgKind::Str => "&str",
            ArgKind::String => "String",
            ArgKind::Path => "&Path",
            ArgKind::PathBuf => "PathBuf",
        }
    }
    pub fn from_name(s: &str) -> Option<ArgKind> {
        ArgKind::ALL.into_iter().find(|a| a.name() == s)
    }
}

#[derive(Clone, Debug, PartialEq)]
pub enum Op {
    /// add_content (add or replace)
    Add { path: String, content: Content },
    /// remove_content (live or absent id)
    Remove { path: String },
    /// validate `times` times back to back
    Validate { times: usize },
    /// the caller thread does unrelated work first: parses `n` distinct contents in a throwaway parser
    Warmup { n: usize },
    /// `n` times remove_content of an id that was never added (cheap mutations: counters, generations)
    RemoveAbsentMany { n: usize },
    /// the file changes on disk (the parser must not notice until told); `tail` = raw bytes appended
    DiskWrite {
        path: String,
        content: Content,
        tail: std::sync::Arc<Vec<u8>>,
    },
    /// add_file through the simulated disk with a fault plan, or from a real file (pass-through)
    AddFile {
        path: String,
        arg: ArgKind,
        plan: FaultPlan,
        passthrough: bool,
    },
}

impl Op {
    pub fn kind_name(&self) -> &'static str {
        match self {
            Op::Add { .. } => "add_content",
            Op::Remove { .. } => "remove_content",
            Op::Validate { .. } => "validate",
            Op::Warmup { .. } => "warmup",
            Op::RemoveAbsentMany { .. } => "remove_absent_many",
            Op::DiskWrite { .. } => "disk_write",
            Op::AddFile { .. } => "add_file",
        }
    }
}

#[derive(Clone, Debug, PartialEq)]
pub struct Step {
    pub op: Op,
    pub caller: usize,
    /// caller of the observation that follows the step
    pub obs_caller: usize,
    /// what the generator meant by this step (probes only; never read by an oracle)
    pub tag: String,
    /// the observation after this step is made by this many threads at once (0 / 1: no)
    pub concurrent: usize,
}

#[derive(Clone, Debug, PartialEq)]
pub struct HistScenario {
    pub steps: Vec<Step>,
    pub policy: Policy,
    pub n_callers: usize,
    pub observe_every_step: bool,
    /// replay the add / replace / remove / validate steps on a parser whose id type has
    /// massively colliding hashes (see coarse.rs); file steps are ignored
    pub coarse_ids: bool,
    /// the long-lived parser comes from `Parser::default()` (the references from `new()`), or the other way round
    pub ctor_default: bool,
    /// a second, unrelated parser lives next to the one under test: it is created on another
    /// caller, receives one mutation for each mutation of the first (other contents), and is
    /// validated on the same thread right before every observation of the first
    pub shadow_parser: bool,
}

pub fn size(s: &HistScenario) -> (usize, usize) {
    let mut bytes = 0;
    for st in &s.steps {
        match &st.op {
            Op::Add { content, .. } => bytes += content.text().len(),
            Op::DiskWrite { content, tail, .. } => bytes += content.text().len() + tail.len(),
            _ => {}
        }
    }
    (s.steps.len(), bytes)
}

// ---------------------------------------------------------------------------------------------
// JSON
// ---------------------------------------------------------------------------------------------

pub fn to_json(s: &HistScenario) -> J {
    J::obj()
        .set("policy", s.policy.to_json())
        .set("n_callers", J::u(s.n_callers as u64))
        .set("observe_every_step", J::Bool(s.observe_every_step))
        .set("coarse_ids", J::Bool(s.coarse_ids))
        .set("ctor_default", J::Bool(s.ctor_default))
        .set("shadow_parser", J::Bool(s.shadow_parser))
        .set(
            "steps",
            J::Arr(
                s.steps
                    .iter()
                    .map(|st| {
                        let mut o = J::obj().set("op", J::s(st.op.kind_name()));
                        match &st.op {
                            Op::Add { path, content } => {
                                o.put("path", J::s(path.clone()));
                                o.put("text", J::s(content.text()));
                                if let Some(m) = content.meta() {
                                    o.put("meta", m.to_json());
                                }
                            }
                            Op::Remove { path } => o.put("path", J::s(path.clone())),
                            Op::Validate { times } => o.put("times", J::u(*times as u64)),
                            Op::Warmup { n } => o.put("n", J::u(*n as u64)),
                            Op::RemoveAbsentMany { n } => o.put("n", J::u(*n as u64)),
                            Op::DiskWrite { path, content, tail } => {
                                o.put("path", J::s(path.clone()));
                                o.put("text", J::s(content.text()));
                                if let Some(m) = content.meta() {
                                    o.put("meta", m.to_json());
                                }
                                if tail.len() > 1024 {
                                    // a padded file: prefix, a long run of 'x', suffix
                                    let first = tail.iter().position(|b| *b == b'x').unwrap_or(0);
                                    let run = tail[first..].iter().take_while(|b| **b == b'x').count();
                                    o.put("tail_prefix_hex", J::s(json::to_hex(&tail[..first])));
                                    o.put("tail_pad_x", J::u(run as u64));
                                    o.put("tail_suffix_hex", J::s(json::to_hex(&tail[first + run..])));
                                } else if !tail.is_empty() {
                                    o.put("tail_hex", J::s(json::to_hex(tail)));
                                }
                            }
                            Op::AddFile {
                                path,
                                arg,
                                plan,
                                passthrough,
                            } => {
                                o.put("path", J::s(path.clone()));
                                o.put("arg", J::s(arg.name()));
                                o.put("plan", plan.to_json());
                                if *passthrough {
                                    o.put("passthrough", J::Bool(true));
                                }
                            }
                        }
                        o.put("caller", J::u(st.caller as u64));
                        o.put("obs_caller", J::u(st.obs_caller as u64));
                        if !st.tag.is_empty() {
                            o.put("tag", J::s(st.tag.clone()));
                        }
                        if st.concurrent > 1 {
                            o.put("concurrent", J::u(st.concurrent as u64));
                        }
                        o
                    })
                    .collect(),
            ),
        )
}

pub fn from_json(j: &J) -> Result<HistScenario, String> {
    let mut steps = Vec::new();
    for st in j.get("steps").and_then(|s| s.as_arr()).ok_or("steps missing")? {
        let path = || -> Result<String, String> {
            Ok(st
                .get("path")
                .and_then(|p| p.as_str())
                .ok_or("step.path missing")?
                .to_owned())
        };
        let text = || -> Result<Content, String> { Content::from_json_step(st) };
        let op = match st.get("op").and_then(|o| o.as_str()) {
            Some("add_content") => Op::Add {
                path: path()?,
                content: text()?,
            },
            Some("remove_content") => Op::Remove { path: path()? },
            Some("validate") => Op::Validate {
                times: st.get("times").and_then(|t| t.as_u64()).unwrap_or(1) as usize,
            },
            Some("remove_absent_many") => Op::RemoveAbsentMany {
                n: st.get("n").and_then(|t| t.as_u64()).unwrap_or(0) as usize,
            },
            Some("warmup") => Op::Warmup {
                n: st.get("n").and_then(|t| t.as_u64()).unwrap_or(0) as usize,
            },
            Some("disk_write") => Op::DiskWrite {
                path: path()?,
                content: text()?,
                tail: std::sync::Arc::new(match (st.get("tail_hex").and_then(|t| t.as_str()), st.get("tail_pad_x").and_then(|t| t.as_u64())) {
                    (Some(h), _) => json::from_hex(h).ok_or("bad tail_hex")?,
                    (None, Some(n)) => {
                        let mut t = json::from_hex(st.get("tail_prefix_hex").and_then(|t| t.as_str()).unwrap_or(""))
                            .ok_or("bad tail_prefix_hex")?;
                        t.resize(t.len() + n as usize, b'x');
                        t.extend(
                            json::from_hex(st.get("tail_suffix_hex").and_then(|t| t.as_str()).unwrap_or(""))
                                .ok_or("bad tail_suffix_hex")?,
                        );
                        t
                    }
                    (None, None) => Vec::new(),
                }),
            },
            Some("add_file") => Op::AddFile {
                path: path()?,
                arg: ArgKind::from_name(st.get("arg").and_then(|a| a.as_str()).unwrap_or("&str"))
                    .ok_or("bad arg kind")?,
                plan: match st.get("plan") {
                    Some(p) => FaultPlan::from_json(p)?,
                    None => FaultPlan::default(),
                },
                passthrough: st.get("passthrough").and_then(|b| b.as_bool()).unwrap_or(false),
            },
            _ => return Err("step.op unknown".to_owned()),
        };
        steps.push(Step {
            op,
            caller: st.get("caller").and_then(|c| c.as_u64()).unwrap_or(0) as usize,
            obs_caller: st.get("obs_caller").and_then(|c| c.as_u64()).unwrap_or(0) as usize,
            tag: st.get("tag").and_then(|t| t.as_str()).unwrap_or("").to_owned(),
            concurrent: st.get("concurrent").and_then(|c| c.as_u64()).unwrap_or(0) as usize,
        });
    }
    let n_callers = j.get("n_callers").and_then(|n| n.as_u64()).unwrap_or(1) as usize;
    if n_callers == 0 {
        return Err("n_callers is 0".to_owned());
    }
    Ok(HistScenario {
        steps,
        policy: Policy::from_json(j.get("policy").ok_or("policy missing")?)?,
        n_callers,
        observe_every_step: j
            .get("observe_every_step")
            .and_then(|b| b.as_bool())
            .unwrap_or(true),
        coarse_ids: j.get("coarse_ids").and_then(|b| b.as_bool()).unwrap_or(false),
        ctor_default: j.get("ctor_default").and_then(|b| b.as_bool()).unwrap_or(false),
        shadow_parser: j.get("shadow_parser").and_then(|b| b.as_bool()).unwrap_or(false),
    })
}

// ---------------------------------------------------------------------------------------------
// Generation
// ---------------------------------------------------------------------------------------------

struct GenState {
    u: Universe,
    gk: GenKnobs,
    paths: Vec<String>,
    /// generator's own bookkeeping of what is (probably) live; only used to pick sensible steps
    live: BTreeMap<PathBuf, (String, Content)>,
    disk: BTreeMap<String, Content>,
    serial: u64,
    p_malformed: u32,
    p_dup_key: u32,
}

impl GenState {
    fn next_serial(&mut self) -> u64 {
        self.serial += 1;
        self.serial
    }

    fn live_docs(&self) -> Vec<(String, Doc)> {
        self.live
            .values()
            .filter_map(|(p, c)| c.as_doc().map(|d| (p.clone(), d.clone())))
            .collect()
    }

    fn defined_keys(&self) -> Vec<(String, String)> {
        self.live_docs()
            .iter()
            .map(|(_, d)| (d.pkg.clone(), d.name.clone()))
            .collect()
    }

    fn imported_keys(&self) -> Vec<String> {
        let mut v = Vec::new();
        for (_, d) in self.live_docs() {
            for i in &d.imports {
                v.push(i.clone());
            }
        }
        v
    }

    /// A new document; where possible one that other live files import or that imports them
    fn fresh_doc(&mut self, rng: &mut Rng) -> Doc {
        let defined = self.defined_keys();
        let imported = self.imported_keys();
        let keys = self.u.keys();
        let (pkg, name) = if !defined.is_empty() && rng.pct(self.p_dup_key) {
            rng.pick(&defined).clone()
        } else if !imported.is_empty() && rng.pct(45) {
            // define something a live file imports
            let k = rng.pick(&imported).clone();
            match k.rsplit_once('.') {
                Some((p, n)) => (p.to_owned(), n.to_owned()),
                None => (rng.pick(&self.u.pkgs).clone(), k),
            }
        } else {
            let mut tries = 0;
            loop {
                let k = rng.pick(&keys).clone();
                let (p, n) = k.rsplit_once('.').unwrap();
                let c = (p.to_owned(), n.to_owned());
                tries += 1;
                if !defined.contains(&c) || tries > 5 {
                    break c;
                }
            }
        };
        // sometimes an item "inside" an existing key: package = <a defined or imported key>
        let (pkg, name) = if rng.pct(6) && (!defined.is_empty() || !imported.is_empty()) {
            let outer = if !defined.is_empty() && rng.pct(60) {
                let (p, n) = rng.pick(&defined).clone();
                format!("{p}.{n}")
            } else if !imported.is_empty() {
                rng.pick(&imported).clone()
            } else {
                pkg.clone()
            };
            (outer, rng.pick(&self.u.names).clone())
        } else {
            (pkg, name)
        };
        let kind = *rng.pick(&Kind::ALL);
        let serial = self.next_serial();
        let mut d = gen::gen_doc(rng, &self.u, &self.gk, &pkg, &name, kind, serial);
        // bias imports towards what is defined right now
        if !defined.is_empty() && rng.pct(50) {
            let (p, n) = rng.pick(&defined).clone();
            let key = format!("{p}.{n}");
            if !d.imports.contains(&key) {
                d.imports.push(key);
                if let Some(gen::Member::Method { args, .. }) = d.members.first_mut() {
                    args.push(gen::Arg {
                        dir: Some("in".to_owned()),
                        ty: gen::Ty::Named(n.clone()),
                        name: Some("dep".to_owned()),
                        annots: vec![],
                    });
                } else if d.kind == Kind::Parcelable {
                    d.members.push(gen::Member::Field {
                        ty: gen::Ty::Named(n.clone()),
                        name: "dep".to_owned(),
                        value: None,
                        annots: vec![],
                        doc: None,
                    });
                }
            }
        }
        d
    }

    fn content_from(&mut self, rng: &mut Rng, d: Doc) -> Content {
        if rng.pct(self.p_malformed) {
            Content::Raw(gen::gen_malformed(rng, &d))
        } else {
            Content::Doc(d)
        }
    }
}

/// Rewrite `d` keeping package, name and kind (a fact-preserving edit for every importer)
fn rewrite_keeping_facts(rng: &mut Rng, st: &mut GenState, d: &Doc, what: usize) -> (Doc, &'static str) {
    let mut n = d.clone();
    n.serial = st.next_serial();
    match what {
        0 => {
            n.members = gen::gen_members(rng, &st.u, &st.gk, d.kind, &d.imports, &d.fwd);
            (n, "rewrite_body")
        }
        1 => {
            let (i, f) = gen::gen_header(rng, &st.u, &st.gk);
            n.imports = i;
            n.fwd = f;
            (n, "rewrite_imports")
        }
        2 => {
            n.doc = Some(format!("doc v{}", n.serial));
            n.banner = Some(format!("banner v{}", n.serial));
            n.header_one_line = rng.pct(50);
            n.dot_trivia = if rng.pct(50) { rng.range(1, 4) as u8 } else { 0 };
            n.tabs = rng.pct(30);
            (n, "rewrite_docs_layout")
        }
        _ => {
            let fresh = gen::gen_doc(rng, &st.u, &st.gk, &d.pkg, &d.name, d.kind, n.serial);
            (fresh, "rewrite_all_keeping_key_kind")
        }
    }
}

/// The path a source tree would give this document: src/<package as directories>/<Name>.aidl
fn layout_path(c: &Content) -> Option<String> {
    c.as_doc().map(|d| format!("src/{}/{}.aidl", d.pkg.replace('.', "/"), d.name))
}

fn gen_plan(rng: &mut Rng, bytes: &[u8], enabled: &[bool; 8], p_fault: u32) -> (FaultPlan, &'static str) {
    let len = bytes.len();
    let mut plan = FaultPlan::default();
    if !rng.pct(p_fault) {
        return (plan, "none");
    }
    let kinds: Vec<usize> = (0..8).filter(|i| enabled[*i]).collect();
    if kinds.is_empty() {
        return (plan, "none");
    }
    let small_chunks = |rng: &mut Rng| -> Vec<ReadEv> {
        let n = rng.range(0, 4);
        (0..n).map(|_| ReadEv::Chunk(rng.range(1, 9))).collect()
    };
    match *rng.pick(&kinds) {
        0 => {
            // short reads
            let n = rng.range(1, 12);
            for _ in 0..n {
                plan.script.push(ReadEv::Chunk(match rng.below(4) {
                    0 => 1,
                    1 => rng.range(1, 7),
                    2 => rng.range(1, 40),
                    _ => rng.range(1, len.max(1)),
                }));
            }
            (plan, "short_reads")
        }
        1 => {
            // EINTR storm between chunks
            let n = rng.range(1, 5);
            plan.script = small_chunks(rng);
            for _ in 0..n {
                let at = rng.below(plan.script.len() + 1);
                plan.script.insert(at, ReadEv::Interrupted);
            }
            (plan, "eintr")
        }
        2 => {
            plan.open_error = Some(*rng.pick(&ErrK::OPEN));
            (plan, "open_error")
        }
        3 => {
            plan.script = small_chunks(rng);
            if rng.pct(30) {
                plan.script.insert(0, ReadEv::Interrupted);
            }
            plan.script.push(ReadEv::Err(*rng.pick(&ErrK::READ)));
            (plan, "read_error")
        }
        4 => {
            // flipped stored byte -> invalid UTF-8 (0x80 bit set on an ASCII byte)
            plan.corrupt = Some((rng.below(len.max(1)), 0x80));
            if rng.pct(50) {
                plan.script = small_chunks(rng);
            }
            (plan, "flipped_byte_invalid_utf8")
        }
        5 => {
            plan.truncate_at = Some(rng.below(len.max(1)));
            if rng.pct(30) {
                plan.script = small_chunks(rng);
            }
            (plan, "truncated")
        }
        7 => {
            // reads that end inside multi-byte sequences (or at random offsets if there are none)
            let inside: Vec<usize> = (1..len).filter(|i| bytes[*i] & 0xc0 == 0x80).collect();
            let n = rng.range(1, 4);
            let mut offs: Vec<usize> = (0..n)
                .map(|_| {
                    if !inside.is_empty() && rng.pct(80) {
                        *rng.pick(&inside)
                    } else {
                        rng.below(len.max(1))
                    }
                })
                .collect();
            offs.sort();
            offs.dedup();
            plan.script = offs.into_iter().map(ReadEv::Until).collect();
            if rng.pct(25) {
                let at = rng.below(plan.script.len() + 1);
                plan.script.insert(at, ReadEv::Interrupted);
            }
            (plan, "split_reads")
        }
        _ => {
            // flipped stored byte that stays valid UTF-8 (ASCII case bit / low bit)
            plan.corrupt = Some((rng.below(len.max(1)), *rng.pick(&[0x01u8, 0x20, 0x02])));
            (plan, "flipped_byte_valid")
        }
    }
}

/// Dense sampling of the small space named in C12's quantifier: 3 ids x a handful of
/// contents that define / import / re-define one key, short histories without file I/O.
fn generate_tiny(rng: &mut Rng) -> (HistScenario, String) {
    let ids = ["a.aidl", "b.aidl", "c.aidl"];
    let mut serial = 0u64;
    let base = |kind: Kind, pkg: &str, name: &str, imports: Vec<String>, members: Vec<gen::Member>, serial: u64| Doc {
        pkg: pkg.to_owned(),
        imports,
        fwd: vec![],
        kind,
        oneway: false,
        name: name.to_owned(),
        annots: vec![],
        doc: None,
        members,
        serial,
        header_one_line: false,
        members_one_line: false,
        banner: None,
        crlf: false,
        tabs: false,
        col_pad: 0,
        line_pad: 0,
        dot_trivia: 0,
        odd_places: false,
    };
    let uses = |ty: &str| {
        vec![gen::Member::Method {
            oneway: false,
            ret: gen::Ty::Void,
            name: "m".to_owned(),
            args: vec![gen::Arg {
                dir: None,
                ty: gen::Ty::Named(ty.to_owned()),
                name: Some("x".to_owned()),
                annots: vec![],
            }],
            code: None,
            annots: vec![],
            doc: None,
        }]
    };
    let n_steps = rng.range(2, 8);
    let n_callers = rng.range(1, 3);
    let policy = match rng.below(3) {
        0 => Policy::Const(rng.below(8) as u64),
        1 => Policy::Stream(rng.next_u64()),
        _ => Policy::PerCaller(rng.next_u64()),
    };
    let mut steps = Vec::new();
    // half of the tiny runs draw from a fixed set of texts (one per content class), so that the
    // very same content comes back: G, B, G on one id, or G moving from id to id
    let fixed_texts = rng.pct(50);
    for _ in 0..n_steps {
        serial += 1;
        let op = match rng.below(10) {
            0..=5 => {
                let class = rng.below(7);
                if fixed_texts {
                    serial = 100 + class as u64;
                }
                let c = match class {
                    0 | 1 => Content::Doc(base(Kind::Interface, "p", "IFoo", vec!["p.Bar".to_owned()], uses("Bar"), serial)),
                    2 => Content::Doc(base(Kind::Parcelable, "p", "Bar", vec![], vec![], serial)),
                    3 => Content::Doc(base(Kind::Enum, "p", "Bar", vec![], vec![], serial)),
                    4 => Content::Raw(rng.pick(&["", "package p; interface {", "parcelable", "package p; import p.Bar; enum { }"]).to_string()),
                    5 => Content::Doc(base(Kind::Interface, "p", "Bar", vec![], vec![], serial)),
                    _ => Content::Doc(base(
                        Kind::Parcelable,
                        "q",
                        "Other",
                        vec!["p.IFoo".to_owned(), "p.Bar".to_owned()],
                        vec![gen::Member::Field {
                            ty: gen::Ty::Named("Bar".to_owned()),
                            name: "f".to_owned(),
                            value: None,
                            annots: vec![],
                            doc: None,
                        }],
                        serial,
                    )),
                };
                Op::Add {
                    path: rng.pick(&ids).to_string(),
                    content: c,
                }
            }
            6 | 7 => Op::Remove {
                path: rng.pick(&ids).to_string(),
            },
            _ => Op::Validate { times: rng.range(1, 2) },
        };
        steps.push(Step {
            op,
            caller: rng.below(n_callers),
            obs_caller: rng.below(n_callers),
            tag: "tiny".to_owned(),
            concurrent: if rng.pct(10) { 2 } else { 0 },
        });
    }
    steps.push(Step {
        op: Op::Validate { times: 2 },
        caller: rng.below(n_callers),
        obs_caller: rng.below(n_callers),
        tag: "validate".to_owned(),
        concurrent: 0,
    });
    let observe_every_step = rng.pct(50);
    let coarse_ids = rng.pct(25);
    let desc = format!("tiny: 3 ids x 7 content classes, steps={} callers={n_callers} policy={} observe_all={observe_every_step}", steps.len(), policy.name());
    (
        HistScenario {
            steps,
            policy,
            n_callers,
            observe_every_step,
            coarse_ids,
            ctor_default: rng.pct(50),
            shadow_parser: rng.pct(20),
        },
        desc,
    )
}

pub fn generate(rng: &mut Rng, prop: Prop, thorough: bool) -> (HistScenario, String) {
    if rng.pct(12) {
        return generate_tiny(rng);
    }
    let u = Universe::generate(rng);
    let gk = GenKnobs::generate(rng);
    let n_paths = rng.range(2, 8);
    let mut idx: Vec<usize> = (0..scenario::PATH_POOL.len()).collect();
    rng.shuffle(&mut idx);
    let mut paths: Vec<String> = idx.iter().take(n_paths).map(|i| scenario::path_for(*i)).collect();
    let big = rng.pct(if thorough { 4 } else { 2 });
    // rarely a huge project: more than 256 live files for the rest of the history
    let huge = rng.below(2000) < (if thorough { 6 } else { 3 });
    let big = big || huge;
    let n_steps = if huge {
        rng.range(3, 8)
    } else if thorough && rng.pct(4) {
        rng.range(41, 90)
    } else if thorough && rng.pct(25) {
        rng.range(17, 40)
    } else {
        rng.range(3, 16)
    };
    // op mix (swarm): add/replace-smart, remove, remove-absent, validate, disk_write, add_file
    let perturb_heavy = prop == Prop::C13 || rng.pct(30);
    let w_add = *rng.pick(&[20u32, 35, 50]);
    let w_perturb = if perturb_heavy { *rng.pick(&[40u32, 60]) } else { *rng.pick(&[0u32, 15, 30]) };
    let w_remove = *rng.pick(&[5u32, 15, 25]);
    let w_remove_absent = *rng.pick(&[0u32, 3, 8]);
    let w_validate = *rng.pick(&[5u32, 15, 30]);
    let w_readd = *rng.pick(&[0u32, 5, 15]);
    let w_warmup = *rng.pick(&[0u32, 0, 0, 4]);
    let mut past: Vec<(String, Content)> = Vec::new();
    let coarse_ids = prop == Prop::C12 && rng.pct(12);
    let files_enabled = !coarse_ids && (prop == Prop::C12 && rng.pct(75) || prop == Prop::C13 && rng.pct(50));
    let w_disk = if files_enabled { *rng.pick(&[10u32, 20]) } else { 0 };
    let w_add_file = if files_enabled { *rng.pick(&[15u32, 30, 45]) } else { 0 };
    let p_fault = *rng.pick(&[0u32, 30, 50, 70]);
    let mut enabled = [false; 8];
    for e in enabled.iter_mut() {
        *e = rng.pct(65);
    }
    let passthrough_run = files_enabled && rng.pct(if thorough { 8 } else { 5 });
    let p_layout: u32 = if passthrough_run { 80 } else { *rng.pick(&[0u32, 30, 60]) };
    let mut st = GenState {
        u,
        gk,
        paths: Vec::new(),
        live: BTreeMap::new(),
        disk: BTreeMap::new(),
        serial: 0,
        p_malformed: *rng.pick(&[0u32, 8, 20]),
        p_dup_key: *rng.pick(&[0u32, 10, 30]),
    };
    if big {
        for i in 0..(if huge { rng.range(258, 290) } else { rng.range(18, 36) }) {
            paths.push(scenario::path_for(scenario::PATH_POOL.len() + i));
        }
    }
    st.paths = paths.clone();
    let n_callers = rng.range(1, 4);
    let key = if rng.pct(40) { rng.below(16) as u64 } else { rng.next_u64() };
    let policy = match rng.below(10) {
        0..=4 => Policy::Const(key),
        5..=7 => Policy::Stream(key),
        _ => Policy::PerCaller(key),
    };
    let observe_every_step = rng.pct(70) && !huge; // (a reference of 290 files after each of 290 adds would take minutes)
    let mut steps: Vec<Step> = Vec::new();
    // generator's copy of the bytes on disk (document + raw tail)
    let mut disk_bytes: BTreeMap<String, Vec<u8>> = BTreeMap::new();
    let p_concurrent = *rng.pick(&[0u32, 8, 25]);
    let mk = |rng: &mut Rng, op: Op, tag: &str| Step {
        op,
        caller: rng.below(n_callers),
        obs_caller: rng.below(n_callers),
        tag: tag.to_owned(),
        concurrent: if rng.pct(p_concurrent) { rng.range(2, 4) } else { 0 },
    };
    if big {
        // fill the table, then (mostly) empty it again: growth and shrink-by-removal
        for (bi, p) in paths.clone().iter().skip(n_paths).enumerate() {
            let mut d = st.fresh_doc(rng);
            if huge && rng.pct(85) {
                // a huge project has hundreds of distinct keys, not twenty
                d.name = format!("N{bi}");
            }
            let c = Content::Doc(d);
            st.live.insert(pb(p), (p.clone(), c.clone()));
            steps.push(mk(rng, Op::Add { path: p.clone(), content: c }, "bulk_add"));
        }
        if huge {
            // a hub: one file that imports most of the project (and a few look-alikes of it)
            let keys: Vec<(String, String)> = st.defined_keys();
            let mut imports: Vec<String> = Vec::new();
            let mut args: Vec<gen::Arg> = Vec::new();
            for (i, (p, n)) in keys.iter().enumerate().take(rng.range(126, 150)) {
                if i % 9 == 0 {
                    imports.push(format!("a.b.{n}")); // unregistered twin, smaller than the real key
                }
                imports.push(format!("{p}.{n}"));
                if i % 7 == 0 {
                    args.push(gen::Arg {
                        dir: Some("in".to_owned()),
                        ty: gen::Ty::Named(n.clone()),
                        name: Some(format!("h{i}")),
                        annots: vec![],
                    });
                }
            }
            let serial = st.next_serial();
            let u2 = st.u.clone();
            let gk2 = st.gk.clone();
            let mut hub = gen::gen_doc(rng, &u2, &gk2, "hub", "IHub", Kind::Interface, serial);
            hub.imports = imports;
            hub.fwd.clear();
            hub.members = vec![gen::Member::Method {
                oneway: false,
                ret: gen::Ty::Void,
                name: "all".to_owned(),
                args,
                code: None,
                annots: vec![],
                doc: None,
            }];
            let c = Content::Doc(hub);
            let hp = "hub/IHub.aidl".to_owned();
            st.live.insert(pb(&hp), (hp.clone(), c.clone()));
            steps.push(mk(rng, Op::Add { path: hp, content: c }, "hub_file"));
            steps.push(mk(rng, Op::Validate { times: 1 }, "validate"));
        }
        let mut rm: Vec<String> = paths.iter().skip(n_paths).cloned().collect();
        rng.shuffle(&mut rm);
        let keep = if huge { rm.len() - rng.below(3) } else { rng.below(4) };
        for p in rm.iter().skip(keep) {
            st.live.remove(&pb(p));
            steps.push(mk(rng, Op::Remove { path: p.clone() }, "bulk_remove"));
        }
        st.paths.truncate(n_paths + 0);
        st.paths.extend(rm.iter().take(keep).cloned());
    }
    if files_enabled {
        // most files exist on disk from the start, so that most loads have something to read
        for p in st.paths.clone() {
            if rng.pct(70) {
                let d = st.fresh_doc(rng);
                let c = st.content_from(rng, d);
                // real source trees: the path follows package and item name
                let p = match layout_path(&c) {
                    Some(lp) if rng.pct(p_layout) => {
                        if !st.paths.contains(&lp) {
                            st.paths.push(lp.clone());
                        }
                        lp
                    }
                    _ => p,
                };
                st.disk.insert(disk_slot(&p), c.clone());
                let tail: Vec<u8> = if rng.pct(30) {
                    "\n// caf\u{e9} 10\u{20ac} \u{1f600}\n".as_bytes().to_vec()
                } else {
                    Vec::new()
                };
                let mut all = c.text().into_bytes();
                all.extend_from_slice(&tail);
                disk_bytes.insert(disk_slot(&p), all);
                steps.push(mk(rng, Op::DiskWrite { path: p, content: c, tail: std::sync::Arc::new(tail) }, "disk_seed"));
            }
        }
    }
    let target = steps.len() + n_steps;
    while steps.len() < target {
        let live_paths: Vec<String> = st.live.values().map(|(p, _)| p.clone()).collect();
        let docs = st.live_docs();
        let w = [
            w_add,
            if docs.is_empty() { 0 } else { w_perturb },
            if live_paths.is_empty() { 0 } else { w_remove },
            w_remove_absent,
            w_validate,
            w_disk,
            w_add_file,
            if past.is_empty() { 0 } else { w_readd },
            w_warmup,
        ];
        for st in steps.iter().rev().take(1) {
            if let Op::Add { path, content } = &st.op {
                past.push((path.clone(), content.clone()));
            }
        }
        match rng.weighted(&w) {
            0 => {
                // add or replace with a fresh document
                let p = rng.pick(&st.paths).clone();
                let d = st.fresh_doc(rng);
                let c = st.content_from(rng, d);
                let tag = if st.live.contains_key(&pb(&p)) { "replace" } else { "add" };
                st.live.insert(pb(&p), (p.clone(), c.clone()));
                steps.push(mk(rng, Op::Add { path: p, content: c }, tag));
            }
            1 => {
                // perturbation of an existing document
                let (p, d) = rng.pick(&docs).clone();
                match rng.below(if observe_every_step { 13 } else { 16 }) {
                    12..=15 => {
                        // counter wrap: validate, m real mutations, 2^k - m cheap ones, validate
                        steps.push(mk(rng, Op::Validate { times: 1 }, "validate"));
                        let m = rng.range(1, 2);
                        for _ in 0..m {
                            let (p2, d2) = rng.pick(&docs).clone();
                            let mut n = d2.clone();
                            n.serial = st.next_serial();
                            n.kind = *rng.pick(&Kind::ALL);
                            n.members = gen::gen_members(rng, &st.u, &st.gk, n.kind, &n.imports, &n.fwd);
                            n.oneway = false;
                            let c = Content::Doc(n);
                            st.live.insert(pb(&p2), (p2.clone(), c.clone()));
                            steps.push(mk(rng, Op::Add { path: p2, content: c }, "change_kind"));
                        }
                        let pow = *rng.pick(&[256usize, 65536, 65536]);
                        steps.push(mk(rng, Op::RemoveAbsentMany { n: pow - m }, "remove_absent_many"));
                        steps.push(mk(rng, Op::Validate { times: 1 }, "validate"));
                    }
                    9 if d.members.iter().any(|m| matches!(m, gen::Member::Junk(j) if !j.trim().is_empty() && !j.contains("/*") && !j.contains("//"))) => {
                        // the stray tokens are blanked out in place: every other position stays what it was
                        let mut n = d.clone();
                        for m in n.members.iter_mut() {
                            if let gen::Member::Junk(j) = m {
                                if !j.contains("/*") && !j.contains("//") {
                                    *j = " ".repeat(j.len());
                                }
                            }
                        }
                        let c = Content::Doc(n);
                        st.live.insert(pb(&p), (p.clone(), c.clone()));
                        steps.push(mk(rng, Op::Add { path: p, content: c }, "blank_out_stray_tokens"));
                    }
                    10 | 11 => {
                        // broken for a moment, then the very same text again (editor: type, undo)
                        let broken = if rng.pct(50) {
                            Content::Raw(rng.pick(&["", "parcelable", "}{", "pack"]).to_string())
                        } else {
                            Content::Raw(gen::gen_malformed(rng, &d))
                        };
                        steps.push(mk(rng, Op::Add { path: p.clone(), content: broken }, "break"));
                        if rng.pct(50) {
                            steps.push(mk(rng, Op::Validate { times: 1 }, "validate"));
                        }
                        let c = st.live[&pb(&p)].1.clone();
                        steps.push(mk(rng, Op::Add { path: p, content: c }, "restore_same_text"));
                    }
                    0..=5 => {
                        let what = rng.below(4);
                        let (n, tag) = rewrite_keeping_facts(rng, &mut st, &d, what);
                        let c = Content::Doc(n);
                        st.live.insert(pb(&p), (p.clone(), c.clone()));
                        steps.push(mk(rng, Op::Add { path: p, content: c }, tag));
                    }
                    6 | 7 => {
                        // change the kind (fact-changing for importers)
                        let mut n = d.clone();
                        n.serial = st.next_serial();
                        n.kind = *rng.pick(&Kind::ALL);
                        n.members = gen::gen_members(rng, &st.u, &st.gk, n.kind, &n.imports, &n.fwd);
                        n.oneway = false;
                        let c = Content::Doc(n);
                        st.live.insert(pb(&p), (p.clone(), c.clone()));
                        steps.push(mk(rng, Op::Add { path: p, content: c }, "change_kind"));
                    }
                    _ => {
                        // a second file registering the same key (same or another kind)
                        let free: Vec<String> = st
                            .paths
                            .iter()
                            .filter(|q| !st.live.contains_key(&pb(q)))
                            .cloned()
                            .collect();
                        let q = if free.is_empty() { rng.pick(&st.paths).clone() } else { rng.pick(&free).clone() };
                        let kind = if rng.pct(50) { d.kind } else { *rng.pick(&Kind::ALL) };
                        let serial = st.next_serial();
                        let n = gen::gen_doc(rng, &st.u, &st.gk, &d.pkg, &d.name, kind, serial);
                        let c = Content::Doc(n);
                        st.live.insert(pb(&q), (q.clone(), c.clone()));
                        steps.push(mk(rng, Op::Add { path: q, content: c }, "second_file_same_key"));
                    }
                }
            }
            2 => {
                let p = rng.pick(&live_paths).clone();
                st.live.remove(&pb(&p));
                // sometimes spelled differently (same id under PathBuf equality)
                let spelled = if rng.pct(15) { format!("{p}/") } else { p };
                steps.push(mk(rng, Op::Remove { path: spelled }, "remove"));
            }
            3 => {
                let absent: Vec<String> = st
                    .paths
                    .iter()
                    .filter(|q| !st.live.contains_key(&pb(q)))
                    .cloned()
                    .collect();
                let p = if absent.is_empty() || rng.pct(30) {
                    "never/added.aidl".to_owned()
                } else {
                    rng.pick(&absent).clone()
                };
                steps.push(mk(rng, Op::Remove { path: p }, "remove_absent"));
            }
            4 => {
                let times = rng.range(1, 3);
                steps.push(mk(rng, Op::Validate { times }, "validate"));
            }
            5 => {
                let p = rng.pick(&st.paths).clone();
                let d = st.fresh_doc(rng);
                let p = match layout_path(&Content::Doc(d.clone())) {
                    Some(lp) if rng.pct(p_layout) => {
                        if !st.paths.contains(&lp) {
                            st.paths.push(lp.clone());
                        }
                        lp
                    }
                    _ => p,
                };
                let c = if rng.pct(6) {
                    Content::Raw(rng.pick(&["", " ", "\n", "\n\n\t "]).to_string()) // an empty / blank file
                } else if rng.pct(4) {
                    // a byte order mark in front of an otherwise well-formed document
                    Content::Raw(format!("\u{feff}{}", d.render()))
                } else {
                    st.content_from(rng, d)
                };
                let tail: Vec<u8> = match rng.below(16) {
                    0 => vec![0xff],
                    1 => b"\n// caf\xc3".to_vec(), // multi-byte sequence cut by EOF
                    2 => b"\n// \xe2\x82".to_vec(),
                    3 => vec![0xc0, 0xaf],
                    // valid non-ASCII after the item (2-, 3- and 4-byte sequences)
                    4 | 5 => b"\n// caf\xc3\xa9\n".to_vec(),
                    6 | 7 => "\n// caf\u{e9} 10\u{20ac} \u{1f600}\u{1f600} \u{e9}\u{e9}\u{e9}\n".as_bytes().to_vec(),
                    _ => Vec::new(),
                };
                // sometimes a big file: a comment pads it so that a multi-byte character straddles
                // a power of two (512 .. 65536: sniffing heads, pages, the usual sizes of I/O buffers)
                // or a size cap
                let tail: Vec<u8> = if tail.is_empty() && rng.pct(10) {
                    let target = match rng.below(100) {
                        0..=29 => 8192usize,
                        30..=44 => 4096,
                        45..=59 => 1usize << rng.range(9, 15),
                        60..=79 => 65536,
                        80..=87 => 1 << 20,
                        88..=91 => 1_000_000,
                        92..=93 => 10_000_000,
                        _ => 1 << 24,
                    };
                    let dense = rng.pct(50);
                    let extra = rng.range(0, 40);
                    let len = c.text().len();
                    if len + 8 < target && !dense {
                        let mut t = b"\n// ".to_vec();
                        t.resize(target - len - 1, b'x');
                        t.extend_from_slice("\u{e9}\u{20ac} end\n".as_bytes());
                        t
                    } else if len + 8 < target {
                        // the same size, but the whole neighbourhood of the boundary (and of every
                        // smaller power of two inside the last 128 KiB) is 2-, 3- and 4-byte
                        // characters: whatever a reader does at the boundary, it does it inside a
                        // character; the document's own length decides the phase
                        let mut t = b"\n// ".to_vec();
                        let ascii_until = (target - len).saturating_sub(128 * 1024).max(t.len());
                        t.resize(ascii_until, b'x');
                        let cycle = "\u{e9}\u{20ac}\u{1f600}".as_bytes();
                        while len + t.len() < target + extra {
                            t.extend_from_slice(cycle);
                        }
                        t.extend_from_slice(b" end\n");
                        t
                    } else {
                        tail
                    }
                } else {
                    tail
                };
                let mut all = c.text().into_bytes();
                all.extend_from_slice(&tail);
                disk_bytes.insert(disk_slot(&p), all);
                st.disk.insert(disk_slot(&p), c.clone());
                let reload = rng.pct(40);
                steps.push(mk(rng, Op::DiskWrite { path: p.clone(), content: c.clone(), tail: std::sync::Arc::new(tail.clone()) }, "disk_write"));
                if reload {
                    // save, then reload at once (the editor's save + the tool's reload)
                    let ok = std::str::from_utf8(&tail).is_ok();
                    if ok {
                        st.live.insert(pb(&p), (p.clone(), if tail.is_empty() { c.clone() } else { Content::Raw(c.text()) }));
                    }
                    let arg = *rng.pick(&ArgKind::ALL);
                    steps.push(mk(rng, Op::AddFile { path: p, arg, plan: FaultPlan::default(), passthrough: passthrough_run }, "add_file:reload_after_save"));
                }
            }
            7 if !live_paths.is_empty() && rng.pct(25) => {
                // the very same text under another id (a copy of the file)
                let from = rng.pick(&live_paths).clone();
                let c = st.live[&pb(&from)].1.clone();
                let to = rng.pick(&st.paths).clone();
                st.live.insert(pb(&to), (to.clone(), c.clone()));
                steps.push(mk(rng, Op::Add { path: to, content: c }, "copy_to_other_id"));
            }
            7 => {
                // the same content again (file saved unchanged), or an earlier version comes back
                let (p, c) = if !live_paths.is_empty() && rng.pct(50) {
                    let p = rng.pick(&live_paths).clone();
                    let c = st.live[&pb(&p)].1.clone();
                    (p, c)
                } else {
                    rng.pick(&past).clone()
                };
                let tag = if st.live.get(&pb(&p)).map(|(_, x)| *x == c).unwrap_or(false) { "readd_same" } else { "revert_to_earlier" };
                st.live.insert(pb(&p), (p.clone(), c.clone()));
                steps.push(mk(rng, Op::Add { path: p, content: c }, tag));
            }
            8 => {
                let n = if rng.pct(50) { rng.range(1, 10) } else { rng.range(64, 130) };
                steps.push(mk(rng, Op::Warmup { n }, "warmup"));
            }
            _ => {
                let on_disk: Vec<String> = st
                    .paths
                    .iter()
                    .filter(|q| st.disk.contains_key(&disk_slot(q)))
                    .cloned()
                    .collect();
                let p = if !on_disk.is_empty() && rng.pct(4) {
                    // a directory instead of a file (the parent of a file on disk)
                    match rng.pick(&on_disk).rsplit_once('/') {
                        Some((dir, _)) if !dir.is_empty() => dir.to_owned(),
                        _ => "src".to_owned(),
                    }
                } else if on_disk.is_empty() || rng.pct(8) {
                    rng.pick(&st.paths).clone() // maybe missing
                } else {
                    rng.pick(&on_disk).clone()
                };
                let bytes: Vec<u8> = disk_bytes.get(&disk_slot(&p)).cloned().unwrap_or_default();
                let (plan, fault) = if passthrough_run {
                    (FaultPlan::default(), "none")
                } else {
                    gen_plan(rng, &bytes, &enabled, p_fault)
                };
                // bookkeeping (approximate): a load without error-type faults succeeds
                let fails = plan.open_error.is_some()
                    || plan.script.iter().any(|e| matches!(e, ReadEv::Err(_)))
                    || matches!(plan.corrupt, Some((_, 0x80)))
                    || !st.disk.contains_key(&disk_slot(&p));
                if !fails {
                    if let Some(c) = st.disk.get(&disk_slot(&p)).cloned() {
                        let c = if plan.truncate_at.is_some() || plan.corrupt.is_some() {
                            Content::Raw(c.text())
                        } else {
                            c
                        };
                        st.live.insert(pb(&p), (p.clone(), c));
                    }
                }
                let arg = *rng.pick(&ArgKind::ALL);
                steps.push(mk(
                    rng,
                    Op::AddFile {
                        path: p.clone(),
                        arg,
                        plan,
                        passthrough: passthrough_run,
                    },
                    &format!("add_file:{fault}"),
                ));
                if !fails && rng.pct(15) {
                    // the loaded file is edited in memory, then loaded again from the unchanged disk
                    let d = st.fresh_doc(rng);
                    let c = Content::Doc(d);
                    steps.push(mk(rng, Op::Add { path: p.clone(), content: c }, "overwrite_loaded_in_memory"));
                    if rng.pct(40) {
                        steps.push(mk(rng, Op::Validate { times: 1 }, "validate"));
                    }
                    if let Some(c) = st.disk.get(&disk_slot(&p)).cloned() {
                        st.live.insert(pb(&p), (p.clone(), c));
                    }
                    steps.push(mk(
                        rng,
                        Op::AddFile { path: p, arg, plan: FaultPlan::default(), passthrough: passthrough_run },
                        "add_file:reload_unchanged_disk",
                    ));
                }
            }
        }
    }
    // always end with an observation
    steps.push(mk(rng, Op::Validate { times: 2 }, "validate"));
    let desc = format!(
        "paths={} steps={} big={} coarse_ids={coarse_ids} callers={} policy={} observe_all={} w=[add {w_add} perturb {w_perturb} rm {w_remove} rm_absent {w_remove_absent} val {w_validate} disk {w_disk} add_file {w_add_file}] p_fault={p_fault} faults_enabled={:?} passthrough={} malformed={} dup={} {}",
        st.paths.len(),
        steps.len(),
        big,
        n_callers,
        policy.name(),
        observe_every_step,
        enabled,
        passthrough_run,
        st.p_malformed,
        st.p_dup_key,
        st.gk.describe()
    );
    (
        HistScenario {
            steps,
            policy,
            n_callers,
            observe_every_step,
            coarse_ids,
            ctor_default: rng.pct(50),
            shadow_parser: rng.pct(20),
        },
        desc,
    )
}

// ---------------------------------------------------------------------------------------------
// Shrinking
// ---------------------------------------------------------------------------------------------

pub fn shrink_candidates(s: &HistScenario) -> (Vec<HistScenario>, usize) {
    let mut out = Vec::new();
    let n = s.steps.len();
    // remove chunks of steps (ddmin-like: halves, quarters, ..., single steps)
    let mut chunk = n / 2;
    while chunk >= 1 {
        let mut start = 0;
        while start < n {
            let end = (start + chunk).min(n);
            if end - start < n {
                let mut c = s.clone();
                c.steps.drain(start..end);
                out.push(c);
            }
            start += chunk;
        }
        if chunk == 1 {
            break;
        }
        chunk /= 2;
    }
    // simplify the schedule
    if s.n_callers > 1 || s.steps.iter().any(|st| st.caller != 0 || st.obs_caller != 0) {
        let mut c = s.clone();
        c.n_callers = 1;
        for st in c.steps.iter_mut() {
            st.caller = 0;
            st.obs_caller = 0;
        }
        out.push(c);
    }
    for p in [Policy::Const(0), Policy::Const(1)] {
        if s.policy != p {
            let mut c = s.clone();
            c.policy = p;
            out.push(c);
        }
    }
    if let Policy::Stream(k) | Policy::PerCaller(k) = s.policy {
        let mut c = s.clone();
        c.policy = Policy::Const(k);
        out.push(c);
    }
    if !s.observe_every_step {
        let mut c = s.clone();
        c.observe_every_step = true;
        out.push(c);
    }
    if s.shadow_parser {
        let mut c = s.clone();
        c.shadow_parser = false;
        out.push(c);
    }
    // simplify single steps
    for (i, st) in s.steps.iter().enumerate() {
        if st.concurrent > 1 {
            let mut c = s.clone();
            c.steps[i].concurrent = 0;
            out.push(c);
        }
        match &st.op {
            Op::RemoveAbsentMany { n } if *n > 0 => {
                let mut c = s.clone();
                c.steps[i].op = Op::RemoveAbsentMany { n: n / 2 };
                out.push(c);
            }
            Op::Warmup { n } if *n > 1 => {
                let mut c = s.clone();
                c.steps[i].op = Op::Warmup { n: n * 3 / 4 };
                out.push(c);
            }
            Op::Validate { times } if *times > 1 => {
                let mut c = s.clone();
                c.steps[i].op = Op::Validate { times: 1 };
                out.push(c);
            }
            Op::AddFile {
                path,
                arg,
                plan,
                passthrough,
            } => {
                if !plan.is_none() {
                    let mut variants: Vec<FaultPlan> = vec![FaultPlan::default()];
                    if !plan.script.is_empty() {
                        let mut p = plan.clone();
                        p.script.clear();
                        variants.push(p);
                        for k in 0..plan.script.len() {
                            let mut p = plan.clone();
                            p.script.remove(k);
                            variants.push(p);
                        }
                    }
                    if plan.truncate_at.is_some() {
                        let mut p = plan.clone();
                        p.truncate_at = None;
                        variants.push(p);
                    }
                    if plan.corrupt.is_some() {
                        let mut p = plan.clone();
                        p.corrupt = None;
                        variants.push(p);
                    }
                    for v in variants {
                        if v != *plan {
                            let mut c = s.clone();
                            c.steps[i].op = Op::AddFile {
                                path: path.clone(),
                                arg: *arg,
                                plan: v,
                                passthrough: *passthrough,
                            };
                            out.push(c);
                        }
                    }
                }
                if *arg != ArgKind::Str {
                    let mut c = s.clone();
                    c.steps[i].op = Op::AddFile {
                        path: path.clone(),
                        arg: ArgKind::Str,
                        plan: plan.clone(),
                        passthrough: *passthrough,
                    };
                    out.push(c);
                }
            }
            Op::DiskWrite { path, content, tail } if !tail.is_empty() => {
                let mut c = s.clone();
                c.steps[i].op = Op::DiskWrite {
                    path: path.clone(),
                    content: content.clone(),
                    tail: std::sync::Arc::new(Vec::new()),
                };
                out.push(c);
            }
            _ => {}
        }
    }
    let content_start = out.len();
    // shrink contents
    for (i, st) in s.steps.iter().enumerate() {
        match &st.op {
            Op::Add { path, content } => {
                for smaller in content.shrink() {
                    let mut c = s.clone();
                    c.steps[i].op = Op::Add {
                        path: path.clone(),
                        content: smaller,
                    };
                    out.push(c);
                }
            }
            Op::DiskWrite { path, content, tail } => {
                for smaller in content.shrink() {
                    let mut c = s.clone();
                    c.steps[i].op = Op::DiskWrite {
                        path: path.clone(),
                        content: smaller,
                        tail: tail.clone(),
                    };
                    out.push(c);
                }
            }
            _ => {}
        }
    }
    (out, content_start)
}
