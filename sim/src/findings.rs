//! Known findings file (/verif/known_findings.json): read-only at run time.
//!
//! Entries with status "known" suppress a violation with the same property and signature
//! (the check prints a KNOWN-FINDING line and exits 0). Entries with status "fixed" suppress
//! nothing: they only document a repaired defect.

use crate::json::{self, J};

#[derive(Clone, Debug)]
pub struct Finding {
    pub property: String,
    pub status: String,
    pub signature: String,
    pub what: String,
}

pub fn load(verif_dir: &str) -> Result<Vec<Finding>, String> {
    let path = format!("{verif_dir}/known_findings.json");
    let text = match std::fs::read_to_string(&path) {
        Ok(t) => t,
        Err(e) if e.kind() == std::io::ErrorKind::NotFound => return Ok(Vec::new()),
        Err(e) => return Err(format!("{path}: {e}")),
    };
    let j = json::parse(&text).map_err(|e| format!("{path}: {e}"))?;
    let mut v = Vec::new();
    for f in j
        .get("findings")
        .and_then(|f| f.as_arr())
        .ok_or(format!("{path}: `findings` array missing"))?
    {
        let g = |k: &str| f.get(k).and_then(|x| x.as_str()).unwrap_or("").to_owned();
        v.push(Finding {
            property: g("property"),
            status: g("status"),
            signature: g("signature"),
            what: g("what"),
        });
    }
    Ok(v)
}

pub fn matches<'a>(findings: &'a [Finding], property: &str, signature: &str) -> Option<&'a Finding> {
    findings
        .iter()
        .find(|f| f.status == "known" && f.property == property && f.signature == signature)
}

pub fn to_json(findings: &[Finding]) -> J {
    J::Arr(
        findings
            .iter()
            .map(|f| {
                J::obj()
                    .set("property", J::s(f.property.clone()))
                    .set("status", J::s(f.status.clone()))
                    .set("signature", J::s(f.signature.clone()))
                    .set("what", J::s(f.what.clone()))
            })
            .collect(),
    )
}
