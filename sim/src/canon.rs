//! Observations of the library (`validate()` output) as comparable values, and a canonical
//! textual form for logs, digests and replay files.
//!
//! Comparison of two observations always goes through the library's own `==` on
//! id / tree / diagnostics. The textual form is only used for logs and for comparing with an
//! observation recorded by another process; it does not depend on the iteration order of any
//! hash container (the one map inside the tree, annotation parameters, is printed sorted).

use aidl_parser::ast;
use aidl_parser::diagnostic::Diagnostic;
use aidl_parser::ParseFileResult;
use std::collections::BTreeMap;
use std::path::PathBuf;

pub type FileResult = ParseFileResult<PathBuf>;

/// What one `validate()` call returned (or the panic it died with)
#[derive(Clone)]
pub enum Outcome {
    Ok(BTreeMap<PathBuf, FileResult>),
    Panic(String),
}

/// Equality of two results: the library's own `==` on id / tree / diagnostics AND equality of
/// every public field as printed by the canonical form (unordered containers printed sorted).
/// The second half matters only for a library whose `==` skips fields.
pub fn result_eq(a: &FileResult, b: &FileResult) -> bool {
    a.id == b.id && a.ast == b.ast && a.diagnostics == b.diagnostics && fields_eq(a, b)
}

/// Field-by-field equality of tree and diagnostics (ids are compared by the caller)
pub fn fields_eq(a: &FileResult, b: &FileResult) -> bool {
    if a.diagnostics.len() != b.diagnostics.len() {
        return false;
    }
    for (x, y) in a.diagnostics.iter().zip(b.diagnostics.iter()) {
        if diag_line(x) != diag_line(y) {
            return false;
        }
    }
    match (&a.ast, &b.ast) {
        (None, None) => true,
        (Some(x), Some(y)) => format!("{:?}", canonical_tree(x)) == format!("{:?}", canonical_tree(y)),
        _ => false,
    }
}

/// First difference between two outcomes: (id, what differs)
pub fn first_difference(a: &Outcome, b: &Outcome) -> Option<(String, String)> {
    match (a, b) {
        (Outcome::Panic(x), Outcome::Panic(y)) => {
            if x == y {
                None
            } else {
                Some(("<panic>".to_owned(), "panic message".to_owned()))
            }
        }
        (Outcome::Panic(_), _) | (_, Outcome::Panic(_)) => {
            Some(("<panic>".to_owned(), "one side panicked".to_owned()))
        }
        (Outcome::Ok(x), Outcome::Ok(y)) => {
            for (k, rx) in x {
                match y.get(k) {
                    None => return Some((format!("{}", k.display()), "missing key".to_owned())),
                    Some(ry) => {
                        if rx.id != ry.id {
                            return Some((format!("{}", k.display()), "id".to_owned()));
                        }
                        if rx.ast != ry.ast {
                            return Some((format!("{}", k.display()), "tree".to_owned()));
                        }
                        if rx.diagnostics != ry.diagnostics {
                            return Some((format!("{}", k.display()), "diagnostics".to_owned()));
                        }
                        if !fields_eq(rx, ry) {
                            return Some((
                                format!("{}", k.display()),
                                "fields that the library's own == does not compare".to_owned(),
                            ));
                        }
                    }
                }
            }
            for k in y.keys() {
                if !x.contains_key(k) {
                    return Some((format!("{}", k.display()), "extra key".to_owned()));
                }
            }
            None
        }
    }
}

fn canon_annots(v: &mut Vec<ast::Annotation>) {
    for a in v.iter_mut() {
        if !a.key_values.is_empty() {
            let mut kv: Vec<(String, Option<String>)> = a.key_values.drain().collect();
            kv.sort();
            let mut s = String::new();
            for (k, v) in kv {
                s.push_str(&k);
                if let Some(v) = v {
                    s.push('=');
                    s.push_str(&v);
                }
                s.push(';');
            }
            a.name = format!("{}({})", a.name, s);
        }
    }
}

fn canon_const(c: &mut ast::Const) {
    canon_annots(&mut c.annotations);
}

/// Copy of the tree whose `Debug` output is independent of hash seeds
fn canonical_tree(t: &ast::Aidl) -> ast::Aidl {
    let mut t = t.clone();
    match &mut t.item {
        ast::Item::Interface(i) => {
            canon_annots(&mut i.annotations);
            for e in i.elements.iter_mut() {
                match e {
                    ast::InterfaceElement::Const(c) => canon_const(c),
                    ast::InterfaceElement::Method(m) => {
                        canon_annots(&mut m.annotations);
                        for a in m.args.iter_mut() {
                            canon_annots(&mut a.annotations);
                        }
                    }
                }
            }
        }
        ast::Item::Parcelable(p) => {
            canon_annots(&mut p.annotations);
            for e in p.elements.iter_mut() {
                match e {
                    ast::ParcelableElement::Const(c) => canon_const(c),
                    ast::ParcelableElement::Field(f) => canon_annots(&mut f.annotations),
                }
            }
        }
        ast::Item::Enum(e) => canon_annots(&mut e.annotations),
    }
    t
}

pub fn diag_line(d: &Diagnostic) -> String {
    let mut s = format!(
        "{:?}@{}:{}-{}:{} {:?}",
        d.kind,
        d.range.start.line_col.0,
        d.range.start.line_col.1,
        d.range.end.line_col.0,
        d.range.end.line_col.1,
        d.message
    );
    if let Some(c) = &d.context_message {
        s.push_str(&format!(" ctx={c:?}"));
    }
    if let Some(h) = &d.hint {
        s.push_str(&format!(" hint={h:?}"));
    }
    for r in &d.related_infos {
        s.push_str(&format!(
            " rel[{}:{}-{}:{} off{}-{} {:?}]",
            r.range.start.line_col.0,
            r.range.start.line_col.1,
            r.range.end.line_col.0,
            r.range.end.line_col.1,
            r.range.start.offset,
            r.range.end.offset,
            r.message
        ));
    }
    s.push_str(&format!(" off{}-{}", d.range.start.offset, d.range.end.offset));
    s
}

pub fn canon_result(r: &FileResult) -> String {
    let mut s = format!("id={:?}\n", r.id);
    match &r.ast {
        None => s.push_str("tree=none\n"),
        Some(t) => {
            s.push_str("tree=");
            s.push_str(&format!("{:?}", canonical_tree(t)));
            s.push('\n');
        }
    }
    for d in &r.diagnostics {
        s.push_str("diag ");
        s.push_str(&diag_line(d));
        s.push('\n');
    }
    s
}

pub fn canon_outcome(o: &Outcome) -> String {
    match o {
        Outcome::Panic(m) => format!("PANIC {m}\n"),
        Outcome::Ok(m) => {
            let mut s = String::new();
            for (k, r) in m {
                s.push_str(&format!("== {:?}\n", k));
                s.push_str(&canon_result(r));
            }
            s
        }
    }
}

/// Short form for logs: per file the diagnostics only (trees are huge)
pub fn brief_outcome(o: &Outcome) -> Vec<String> {
    match o {
        Outcome::Panic(m) => vec![format!("PANIC {m}")],
        Outcome::Ok(m) => {
            let mut v = Vec::new();
            for (k, r) in m {
                v.push(format!(
                    "{}: tree={} diags={}",
                    k.display(),
                    if r.ast.is_some() { "yes" } else { "no" },
                    r.diagnostics.len()
                ));
                for d in &r.diagnostics {
                    v.push(format!("    {}", diag_line(d)));
                }
            }
            v
        }
    }
}

/// Resolved kinds of all types of a tree, in traversal order (part of the brief log so that a
/// difference in the tree is visible without dumping it)
pub fn resolved_kinds(t: &ast::Aidl) -> Vec<String> {
    let mut v = Vec::new();
    aidl_parser::traverse::walk_types(t, |ty| {
        if let ast::TypeKind::ResolvedItem(k, kind) = &ty.kind {
            v.push(format!(
                "{}@{}:{}->{}:{:?}",
                ty.name, ty.symbol_range.start.line_col.0, ty.symbol_range.start.line_col.1, k, kind
            ));
        }
    });
    v
}
