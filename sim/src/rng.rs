//! The only source of randomness of the simulator: splitmix64 for seed derivation,
//! xoshiro256** for the per-run stream. No clock, no OS randomness.

pub fn splitmix64(x: u64) -> u64 {
    let mut z = x.wrapping_add(0x9e37_79b9_7f4a_7c15);
    z = (z ^ (z >> 30)).wrapping_mul(0xbf58_476d_1ce4_e5b9);
    z = (z ^ (z >> 27)).wrapping_mul(0x94d0_49bb_1331_11eb);
    z ^ (z >> 31)
}

pub fn mix2(a: u64, b: u64) -> u64 {
    splitmix64(splitmix64(a) ^ b.wrapping_mul(0xd6e8_feb8_6659_fd93))
}

pub fn mix3(a: u64, b: u64, c: u64) -> u64 {
    mix2(mix2(a, b), c)
}

/// FNV-1a over bytes followed by a finalizer: used for digests of event logs.
#[derive(Clone)]
pub struct Digest(u64);

impl Digest {
    pub fn new() -> Self {
        Digest(0xcbf2_9ce4_8422_2325)
    }
    pub fn bytes(&mut self, b: &[u8]) {
        for x in b {
            self.0 = (self.0 ^ u64::from(*x)).wrapping_mul(0x0000_0100_0000_01b3);
        }
        // separator so that ("ab","c") != ("a","bc")
        self.0 = (self.0 ^ 0xff).wrapping_mul(0x0000_0100_0000_01b3);
    }
    pub fn str(&mut self, s: &str) {
        self.bytes(s.as_bytes());
    }
    pub fn u64(&mut self, v: u64) {
        self.bytes(&v.to_le_bytes());
    }
    pub fn finish(&self) -> u64 {
        splitmix64(self.0)
    }
}

pub fn digest_str(s: &str) -> u64 {
    let mut d = Digest::new();
    d.str(s);
    d.finish()
}

#[derive(Clone)]
pub struct Rng {
    s: [u64; 4],
}

impl Rng {
    pub fn new(seed: u64) -> Self {
        let mut x = seed;
        let mut s = [0u64; 4];
        for v in s.iter_mut() {
            x = x.wrapping_add(0x9e37_79b9_7f4a_7c15);
            *v = splitmix64(x);
        }
        if s == [0, 0, 0, 0] {
            s[0] = 1;
        }
        Rng { s }
    }

    pub fn next_u64(&mut self) -> u64 {
        let result = self.s[1].wrapping_mul(5).rotate_left(7).wrapping_mul(9);
        let t = self.s[1] << 17;
        self.s[2] ^= self.s[0];
        self.s[3] ^= self.s[1];
        self.s[1] ^= self.s[2];
        self.s[0] ^= self.s[3];
        self.s[2] ^= t;
        self.s[3] = self.s[3].rotate_left(45);
        result
    }

    /// Uniform in 0..n (n > 0)
    pub fn below(&mut self, n: usize) -> usize {
        debug_assert!(n > 0);
        // multiply-shift; bias is irrelevant here (n is tiny)
        ((u128::from(self.next_u64()) * (n as u128)) >> 64) as usize
    }

    /// Uniform in lo..=hi
    pub fn range(&mut self, lo: usize, hi: usize) -> usize {
        lo + self.below(hi - lo + 1)
    }

    /// True with probability pct / 100
    pub fn pct(&mut self, pct: u32) -> bool {
        (self.below(100) as u32) < pct
    }

    pub fn pick<'a, T>(&mut self, v: &'a [T]) -> &'a T {
        &v[self.below(v.len())]
    }

    pub fn shuffle<T>(&mut self, v: &mut [T]) {
        for i in (1..v.len()).rev() {
            let j = self.below(i + 1);
            v.swap(i, j);
        }
    }

    /// Index drawn according to integer weights (at least one weight > 0)
    pub fn weighted(&mut self, weights: &[u32]) -> usize {
        let total: u32 = weights.iter().sum();
        let mut x = self.below(total as usize) as u32;
        for (i, w) in weights.iter().enumerate() {
            if x < *w {
                return i;
            }
            x -= *w;
        }
        weights.len() - 1
    }
}
