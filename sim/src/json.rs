//! Minimal JSON value, writer and parser (the simulator has no third-party dependencies).
//! Object keys keep their insertion order, so output is deterministic.

use std::fmt::Write;

#[derive(Clone, Debug, PartialEq)]
pub enum J {
    Null,
    Bool(bool),
    Int(i64),
    /// u64 that does not fit i64 is written as a string by the callers; floats only for wall time
    Float(f64),
    Str(String),
    Arr(Vec<J>),
    Obj(Vec<(String, J)>),
}

impl J {
    pub fn obj() -> J {
        J::Obj(Vec::new())
    }

    pub fn set<K: Into<String>>(mut self, k: K, v: J) -> J {
        if let J::Obj(ref mut o) = self {
            let k = k.into();
            if let Some(e) = o.iter_mut().find(|(kk, _)| *kk == k) {
                e.1 = v;
            } else {
                o.push((k, v));
            }
        }
        self
    }

    pub fn put<K: Into<String>>(&mut self, k: K, v: J) {
        if let J::Obj(ref mut o) = self {
            let k = k.into();
            if let Some(e) = o.iter_mut().find(|(kk, _)| *kk == k) {
                e.1 = v;
            } else {
                o.push((k, v));
            }
        }
    }

    pub fn s<S: Into<String>>(s: S) -> J {
        J::Str(s.into())
    }

    pub fn u(v: u64) -> J {
        if v <= i64::MAX as u64 {
            J::Int(v as i64)
        } else {
            J::Str(format!("{v}"))
        }
    }

    /// u64 always as a decimal string (hash keys, seeds: must survive any JSON reader)
    pub fn u_str(v: u64) -> J {
        J::Str(format!("{v}"))
    }

    pub fn get(&self, k: &str) -> Option<&J> {
        match self {
            J::Obj(o) => o.iter().find(|(kk, _)| kk == k).map(|(_, v)| v),
            _ => None,
        }
    }

    pub fn as_str(&self) -> Option<&str> {
        match self {
            J::Str(s) => Some(s),
            _ => None,
        }
    }

    pub fn as_u64(&self) -> Option<u64> {
        match self {
            J::Int(i) if *i >= 0 => Some(*i as u64),
            J::Str(s) => s.parse().ok(),
            _ => None,
        }
    }

    pub fn as_bool(&self) -> Option<bool> {
        match self {
            J::Bool(b) => Some(*b),
            _ => None,
        }
    }

    pub fn as_arr(&self) -> Option<&[J]> {
        match self {
            J::Arr(a) => Some(a),
            _ => None,
        }
    }

    pub fn to_string_compact(&self) -> String {
        let mut s = String::new();
        self.write(&mut s, None, 0);
        s
    }

    pub fn to_string_pretty(&self) -> String {
        let mut s = String::new();
        self.write(&mut s, Some(1), 0);
        s.push('\n');
        s
    }

    fn write(&self, out: &mut String, indent: Option<usize>, level: usize) {
        let nl = |out: &mut String, level: usize| {
            if let Some(n) = indent {
                out.push('\n');
                for _ in 0..(n * level) {
                    out.push(' ');
                }
            }
        };
        match self {
            J::Null => out.push_str("null"),
            J::Bool(b) => out.push_str(if *b { "true" } else { "false" }),
            J::Int(i) => {
                let _ = write!(out, "{i}");
            }
            J::Float(f) => {
                if f.is_finite() {
                    let _ = write!(out, "{f:.3}");
                } else {
                    out.push_str("null");
                }
            }
            J::Str(s) => write_str(out, s),
            J::Arr(a) => {
                if a.is_empty() {
                    out.push_str("[]");
                    return;
                }
                out.push('[');
                for (i, v) in a.iter().enumerate() {
                    if i > 0 {
                        out.push(',');
                    }
                    nl(out, level + 1);
                    v.write(out, indent, level + 1);
                }
                nl(out, level);
                out.push(']');
            }
            J::Obj(o) => {
                if o.is_empty() {
                    out.push_str("{}");
                    return;
                }
                out.push('{');
                for (i, (k, v)) in o.iter().enumerate() {
                    if i > 0 {
                        out.push(',');
                    }
                    nl(out, level + 1);
                    write_str(out, k);
                    out.push(':');
                    if indent.is_some() {
                        out.push(' ');
                    }
                    v.write(out, indent, level + 1);
                }
                nl(out, level);
                out.push('}');
            }
        }
    }
}

fn write_str(out: &mut String, s: &str) {
    out.push('"');
    for c in s.chars() {
        match c {
            '"' => out.push_str("\\\""),
            '\\' => out.push_str("\\\\"),
            '\n' => out.push_str("\\n"),
            '\r' => out.push_str("\\r"),
            '\t' => out.push_str("\\t"),
            c if (c as u32) < 0x20 => {
                let _ = write!(out, "\\u{:04x}", c as u32);
            }
            c => out.push(c),
        }
    }
    out.push('"');
}

pub fn parse(text: &str) -> Result<J, String> {
    let mut p = P {
        b: text.as_bytes(),
        i: 0,
    };
    p.ws();
    let v = p.value()?;
    p.ws();
    if p.i != p.b.len() {
        return Err(format!("trailing data at byte {}", p.i));
    }
    Ok(v)
}

struct P<'a> {
    b: &'a [u8],
    i: usize,
}

impl<'a> P<'a> {
    fn ws(&mut self) {
        while self.i < self.b.len() && matches!(self.b[self.i], b' ' | b'\n' | b'\r' | b'\t') {
            self.i += 1;
        }
    }

    fn eat(&mut self, c: u8) -> Result<(), String> {
        if self.i < self.b.len() && self.b[self.i] == c {
            self.i += 1;
            Ok(())
        } else {
            Err(format!("expected `{}` at byte {}", c as char, self.i))
        }
    }

    fn value(&mut self) -> Result<J, String> {
        if self.i >= self.b.len() {
            return Err("unexpected end".to_owned());
        }
        match self.b[self.i] {
            b'{' => {
                self.i += 1;
                let mut o = Vec::new();
                self.ws();
                if self.i < self.b.len() && self.b[self.i] == b'}' {
                    self.i += 1;
                    return Ok(J::Obj(o));
                }
                loop {
                    self.ws();
                    let k = self.string()?;
                    self.ws();
                    self.eat(b':')?;
                    self.ws();
                    let v = self.value()?;
                    o.push((k, v));
                    self.ws();
                    if self.i < self.b.len() && self.b[self.i] == b',' {
                        self.i += 1;
                        continue;
                    }
                    self.eat(b'}')?;
                    return Ok(J::Obj(o));
                }
            }
            b'[' => {
                self.i += 1;
                let mut a = Vec::new();
                self.ws();
                if self.i < self.b.len() && self.b[self.i] == b']' {
                    self.i += 1;
                    return Ok(J::Arr(a));
                }
                loop {
                    self.ws();
                    a.push(self.value()?);
                    self.ws();
                    if self.i < self.b.len() && self.b[self.i] == b',' {
                        self.i += 1;
                        continue;
                    }
                    self.eat(b']')?;
                    return Ok(J::Arr(a));
                }
            }
            b'"' => Ok(J::Str(self.string()?)),
            b't' => self.lit("true", J::Bool(true)),
            b'f' => self.lit("false", J::Bool(false)),
            b'n' => self.lit("null", J::Null),
            _ => {
                let start = self.i;
                while self.i < self.b.len()
                    && matches!(self.b[self.i], b'0'..=b'9' | b'-' | b'+' | b'.' | b'e' | b'E')
                {
                    self.i += 1;
                }
                let s = std::str::from_utf8(&self.b[start..self.i]).map_err(|e| e.to_string())?;
                if let Ok(i) = s.parse::<i64>() {
                    Ok(J::Int(i))
                } else if let Ok(f) = s.parse::<f64>() {
                    Ok(J::Float(f))
                } else {
                    Err(format!("bad number `{s}` at byte {start}"))
                }
            }
        }
    }

    fn lit(&mut self, word: &str, v: J) -> Result<J, String> {
        if self.b[self.i..].starts_with(word.as_bytes()) {
            self.i += word.len();
            Ok(v)
        } else {
            Err(format!("bad literal at byte {}", self.i))
        }
    }

    fn string(&mut self) -> Result<String, String> {
        self.eat(b'"')?;
        let mut out: Vec<u8> = Vec::new();
        loop {
            if self.i >= self.b.len() {
                return Err("unterminated string".to_owned());
            }
            let c = self.b[self.i];
            self.i += 1;
            match c {
                b'"' => break,
                b'\\' => {
                    if self.i >= self.b.len() {
                        return Err("bad escape".to_owned());
                    }
                    let e = self.b[self.i];
                    self.i += 1;
                    match e {
                        b'"' => out.push(b'"'),
                        b'\\' => out.push(b'\\'),
                        b'/' => out.push(b'/'),
                        b'n' => out.push(b'\n'),
                        b'r' => out.push(b'\r'),
                        b't' => out.push(b'\t'),
                        b'b' => out.push(8),
                        b'f' => out.push(12),
                        b'u' => {
                            if self.i + 4 > self.b.len() {
                                return Err("bad \\u escape".to_owned());
                            }
                            let h = std::str::from_utf8(&self.b[self.i..self.i + 4])
                                .map_err(|e| e.to_string())?;
                            let cp = u32::from_str_radix(h, 16).map_err(|e| e.to_string())?;
                            self.i += 4;
                            let ch = char::from_u32(cp).unwrap_or('\u{fffd}');
                            let mut buf = [0u8; 4];
                            out.extend_from_slice(ch.encode_utf8(&mut buf).as_bytes());
                        }
                        _ => return Err("bad escape".to_owned()),
                    }
                }
                c => out.push(c),
            }
        }
        String::from_utf8(out).map_err(|e| e.to_string())
    }
}

/// Bytes <-> hex (disk contents in replay files may be invalid UTF-8)
pub fn to_hex(b: &[u8]) -> String {
    let mut s = String::with_capacity(b.len() * 2);
    for x in b {
        let _ = write!(s, "{x:02x}");
    }
    s
}

pub fn from_hex(s: &str) -> Option<Vec<u8>> {
    if s.len() % 2 != 0 {
        return None;
    }
    (0..s.len() / 2)
        .map(|i| u8::from_str_radix(&s[2 * i..2 * i + 2], 16).ok())
        .collect()
}
