//! C12 with another id type. `Parser<ID>` only asks for `ID: Eq + Hash + Clone + Debug`; the
//! `Hash` contract allows distinct ids to share a hash. This engine replays the
//! add / replace / remove / validate part of a history scenario on a `Parser<CoarseId>`
//! whose ids collide massively (the hash only sees the parity of the name's length), and
//! compares with a fresh parser after every step: "ids never influence one another's slots".

use crate::hist::{HistScenario, Op};
use crate::rng::{digest_str, Digest};
use crate::scenario::Violation;
use crate::scn::RunOut;
use aidl_parser::{ParseFileResult, Parser};
use std::collections::BTreeMap;
use std::hash::{Hash, Hasher};
use std::panic::{catch_unwind, AssertUnwindSafe};

/// `version` is not part of the identity (like a document version in a language server): two ids
/// with the same name are equal, hash equally and still can be told apart.
#[derive(Clone, Debug)]
pub struct CoarseId {
    pub name: String,
    pub version: u64,
}

impl PartialEq for CoarseId {
    fn eq(&self, o: &Self) -> bool {
        self.name == o.name
    }
}
impl Eq for CoarseId {}
impl PartialOrd for CoarseId {
    fn partial_cmp(&self, o: &Self) -> Option<std::cmp::Ordering> {
        Some(self.cmp(o))
    }
}
impl Ord for CoarseId {
    fn cmp(&self, o: &Self) -> std::cmp::Ordering {
        self.name.cmp(&o.name)
    }
}

impl Hash for CoarseId {
    fn hash<H: Hasher>(&self, state: &mut H) {
        // legal, and as coarse as it gets without being constant
        (self.name.len() % 2).hash(state);
    }
}

type R = ParseFileResult<CoarseId>;

fn observe(p: &Parser<CoarseId>) -> Result<BTreeMap<CoarseId, R>, String> {
    match catch_unwind(AssertUnwindSafe(|| p.validate())) {
        Ok(m) => {
            let mut out = BTreeMap::new();
            for (k, v) in m {
                out.insert(k, v);
            }
            Ok(out)
        }
        Err(e) => Err(crate::exec::panic_message(e)),
    }
}

fn brief(r: Option<&R>) -> String {
    match r {
        None => "<absent>".to_owned(),
        Some(r) => {
            let mut s = format!("id={:?} tree={}\n", r.id.name, if r.ast.is_some() { "yes" } else { "no" });
            for d in &r.diagnostics {
                s.push_str(&crate::canon::diag_line(d));
                s.push('\n');
            }
            s
        }
    }
}

pub fn run(s: &HistScenario) -> RunOut {
    let policy = s.policy;
    let mut counters: BTreeMap<String, u64> = BTreeMap::new();
    let mut count = |k: &str| *counters.entry(k.to_owned()).or_default() += 1;
    let mut out = Digest::new();
    let mut violation: Option<Violation> = None;
    // value: (text, version of the id given by the latest add)
    let mut model: BTreeMap<CoarseId, (String, u64)> = BTreeMap::new();
    policy.install(0);
    let mut parser: Parser<CoarseId> = if s.ctor_default { Parser::default() } else { Parser::new() };
    let mut max_live = 0usize;
    let mut nontrivial = false;
    let mut pending = false;
    count("coarse_id_runs");
    for (si, st) in s.steps.iter().enumerate() {
        let step_no = si as u64 + 1;
        policy.install(step_no);
        let mut observe_now = s.observe_every_step;
        match &st.op {
            Op::Add { path, content } => {
                let id = CoarseId { name: path.clone(), version: step_no };
                let text = content.text();
                // a text that panics a fresh parser is C01's business
                let probe = catch_unwind(AssertUnwindSafe(|| {
                    let mut p: Parser<CoarseId> = Parser::new();
                    p.add_content(CoarseId { name: "probe".to_owned(), version: 0 }, &text);
                    let _ = p.validate();
                }));
                if probe.is_err() {
                    count("c01_pathological_inputs_skipped");
                    continue;
                }
                if catch_unwind(AssertUnwindSafe(|| parser.add_content(id.clone(), &text))).is_err() {
                    violation = Some(Violation {
                        property: "C12",
                        clause: "panic".to_owned(),
                        signature: "panic:add_content:coarse".to_owned(),
                        detail: format!("step {si}: add_content({path}) panicked on the long-lived parser but not on a fresh one (ids with colliding hashes)"),
                        left: String::new(),
                        right: String::new(),
                    });
                    break;
                }
                if model.insert(id, (text, step_no)).is_some() {
                    count("replaces");
                }
                pending = true;
                count("op_add_content");
            }
            Op::Remove { path } => {
                let id = CoarseId { name: path.clone(), version: step_no };
                let _ = catch_unwind(AssertUnwindSafe(|| parser.remove_content(id.clone())));
                if model.remove(&id).is_some() {
                    count("removes_live");
                } else {
                    count("removes_absent");
                }
                pending = true;
                count("op_remove_content");
            }
            Op::Validate { .. } => observe_now = true,
            // no file I/O with a generic id type; warm-ups are about threads
            Op::RemoveAbsentMany { n } => {
                let id = CoarseId { name: "never/added".to_owned(), version: step_no };
                for _ in 0..*n {
                    parser.remove_content(id.clone());
                }
                pending = true;
            }
            Op::DiskWrite { .. } | Op::AddFile { .. } | Op::Warmup { .. } => continue,
        }
        max_live = max_live.max(model.len());
        if !observe_now {
            continue;
        }
        count("observations");
        if pending && max_live >= 2 {
            nontrivial = true;
        }
        pending = false;
        let got = observe(&parser);
        policy.install(1_000_000 + step_no);
        let mut fresh: Parser<CoarseId> = if s.ctor_default { Parser::new() } else { Parser::default() };
        let mut fresh_panic = false;
        for (id, (text, version)) in &model {
            let id = CoarseId { name: id.name.clone(), version: *version };
            if catch_unwind(AssertUnwindSafe(|| fresh.add_content(id.clone(), text))).is_err() {
                fresh_panic = true;
            }
        }
        let want = observe(&fresh);
        count("reference_builds");
        let (got, want) = match (got, want, fresh_panic) {
            (Ok(g), Ok(w), false) => (g, w),
            (Err(_), Err(_), _) | (_, _, true) => {
                count("c01_validate_panics_shared_with_reference");
                continue;
            }
            (g, w, _) => {
                violation = Some(Violation {
                    property: "C12",
                    clause: "history".to_owned(),
                    signature: "history:panic:coarse".to_owned(),
                    detail: format!("after step {si}: one of the long-lived / fresh parser panicked in validate() and the other did not (ids with colliding hashes)"),
                    left: format!("{:?}", g.err()),
                    right: format!("{:?}", w.err()),
                });
                break;
            }
        };
        for r in got.values() {
            out.str(&brief(Some(r)));
        }
        let gk: Vec<&String> = got.keys().map(|k| &k.name).collect();
        let mk: Vec<&String> = model.keys().map(|k| &k.name).collect();
        if gk != mk {
            violation = Some(Violation {
                property: "C12",
                clause: "key_set".to_owned(),
                signature: "key_set:coarse".to_owned(),
                detail: format!(
                    "after step {si}: validate() returned ids {gk:?} but the surviving ids are {mk:?} (id type whose hash only distinguishes two classes: distinct ids must still have distinct slots)"
                ),
                left: format!("{gk:?}"),
                right: format!("{mk:?}"),
            });
            break;
        }
        // whether the id object is the one of the latest add (its version tells) is counted, not judged
        if got.iter().any(|(k, g)| model.get(k).map(|(_, v)| *v != g.id.version).unwrap_or(false)) {
            count("note_id_object_is_not_the_latest_add");
        }
        let mut bad = None;
        for (k, g) in &got {
            let w = want.get(k);
            let same = match w {
                Some(w) => {
                    g.id == *k
                        && w.id == g.id
                        && w.ast == g.ast
                        && w.diagnostics == g.diagnostics
                        && w.diagnostics.iter().map(crate::canon::diag_line).eq(g.diagnostics.iter().map(crate::canon::diag_line))
                }
                None => false,
            };
            if !same {
                bad = Some((k.clone(), brief(Some(g)), brief(w)));
                break;
            }
        }
        if let Some((k, l, r)) = bad {
            violation = Some(Violation {
                property: "C12",
                clause: "history".to_owned(),
                signature: "history:coarse".to_owned(),
                detail: format!(
                    "after step {si}: the long-lived parser and a fresh parser holding the same {} surviving contents differ in the result of {:?} (id type with massively colliding hashes)",
                    model.len(),
                    k.name
                ),
                left: l,
                right: r,
            });
            break;
        }
        count("reference_comparisons");
    }
    counters.insert("max_live_files".to_owned(), max_live as u64);
    RunOut {
        violation,
        gen_digest: digest_str(&crate::hist::to_json(s).to_string_compact()),
        out_digest: out.finish(),
        nontrivial,
        steps: s.steps.len() as u64,
        executions: 1,
        counters,
        states: Vec::new(),
        transitions: Vec::new(),
    }
}
