//! Pieces shared by the scenario kinds: file contents, violations, path pool.

use crate::gen::{self, Doc};
use crate::json::J;
use std::path::PathBuf;

/// A file content: either a document model (shrinks structurally) or raw text
#[derive(Clone, Debug, PartialEq)]
pub enum Content {
    Doc(Doc),
    Raw(String),
    /// text of a well-formed generated document whose model is gone (replay files)
    Tagged { text: String, meta: DocMeta },
}

/// What a well-formed generated document is expected to parse to (attribution oracle)
#[derive(Clone, Debug, PartialEq)]
pub struct DocMeta {
    pub serial: u64,
    pub pkg: String,
    pub name: String,
    pub kind: String,
}

impl DocMeta {
    pub fn to_json(&self) -> J {
        J::obj()
            .set("serial", J::u(self.serial))
            .set("pkg", J::s(self.pkg.clone()))
            .set("name", J::s(self.name.clone()))
            .set("kind", J::s(self.kind.clone()))
    }
    pub fn from_json(j: &J) -> Option<DocMeta> {
        Some(DocMeta {
            serial: j.get("serial")?.as_u64()?,
            pkg: j.get("pkg")?.as_str()?.to_owned(),
            name: j.get("name")?.as_str()?.to_owned(),
            kind: j.get("kind")?.as_str()?.to_owned(),
        })
    }
}

impl Content {
    pub fn text(&self) -> String {
        match self {
            Content::Doc(d) => d.render(),
            Content::Raw(s) => s.clone(),
            Content::Tagged { text, .. } => text.clone(),
        }
    }

    pub fn meta(&self) -> Option<DocMeta> {
        match self {
            Content::Doc(d) => Some(DocMeta {
                serial: d.serial,
                pkg: d.pkg.clone(),
                name: d.name.clone(),
                kind: d.kind.as_str().to_owned(),
            }),
            Content::Raw(_) => None,
            Content::Tagged { meta, .. } => Some(meta.clone()),
        }
    }

    /// Content from a replay file
    pub fn from_json_step(j: &J) -> Result<Content, String> {
        let text = j
            .get("text")
            .and_then(|p| p.as_str())
            .ok_or("text missing")?
            .to_owned();
        Ok(match j.get("meta").and_then(DocMeta::from_json) {
            Some(meta) => Content::Tagged { text, meta },
            None => Content::Raw(text),
        })
    }

    pub fn as_doc(&self) -> Option<&Doc> {
        match self {
            Content::Doc(d) => Some(d),
            Content::Raw(_) | Content::Tagged { .. } => None,
        }
    }

    pub fn shrink(&self) -> Vec<Content> {
        match self {
            Content::Doc(d) => d.shrink().into_iter().map(Content::Doc).collect(),
            Content::Raw(s) => gen::shrink_raw(s).into_iter().map(Content::Raw).collect(),
            Content::Tagged { text, .. } => gen::shrink_raw(text).into_iter().map(Content::Raw).collect(),
        }
    }
}

/// A violation of one oracle clause
#[derive(Clone, Debug)]
pub struct Violation {
    pub property: &'static str,
    /// stable name of the oracle clause that failed (the minimiser keeps it fixed)
    pub clause: String,
    /// structural signature used to match known findings
    pub signature: String,
    /// human readable: where, what
    pub detail: String,
    /// the two differing observations (canonical text), or the offending one + empty
    pub left: String,
    pub right: String,
}

impl Violation {
    pub fn to_json(&self) -> J {
        J::obj()
            .set("property", J::s(self.property))
            .set("clause", J::s(self.clause.clone()))
            .set("signature", J::s(self.signature.clone()))
            .set("detail", J::s(self.detail.clone()))
            .set("left", J::s(self.left.clone()))
            .set("right", J::s(self.right.clone()))
    }
}

/// Paths used as ids. Several spell the same file differently; what counts as "the same id"
/// is decided by `PathBuf`'s own equality (the model is keyed by `PathBuf` as well).
pub const PATH_POOL: &[&str] = &[
    "a.aidl",
    "b.aidl",
    "c.aidl",
    "./a.aidl",
    "d/a.aidl",
    "d/../a.aidl",
    "d/e.aidl",
    "d//e.aidl",
    "d/./e.aidl",
    "/abs/p/Foo.aidl",
    "p/q/Foo.aidl",
    "B.AIDL",
    "a.aidl.bak",
    "a",
];

pub fn path_for(i: usize) -> String {
    if i < PATH_POOL.len() {
        PATH_POOL[i].to_owned()
    } else {
        format!("gen/f{i}.aidl")
    }
}

/// Lexical normalisation used only by the simulated disk: spellings of one file share a slot
pub fn disk_slot(path: &str) -> String {
    let abs = path.starts_with('/');
    let mut parts: Vec<&str> = Vec::new();
    for c in path.split('/') {
        match c {
            "" | "." => {}
            ".." => {
                if !parts.is_empty() && *parts.last().unwrap() != ".." {
                    parts.pop();
                } else if !abs {
                    parts.push("..");
                }
            }
            c => parts.push(c),
        }
    }
    format!("{}{}", if abs { "/" } else { "" }, parts.join("/"))
}

pub fn pb(s: &str) -> PathBuf {
    PathBuf::from(s)
}

pub fn jstr_arr<S: AsRef<str>>(v: &[S]) -> J {
    J::Arr(v.iter().map(|s| J::s(s.as_ref())).collect())
}

pub fn jusize_arr(v: &[usize]) -> J {
    J::Arr(v.iter().map(|s| J::u(*s as u64)).collect())
}

pub fn parse_usize_arr(j: Option<&J>) -> Result<Vec<usize>, String> {
    j.and_then(|a| a.as_arr())
        .ok_or("array expected")?
        .iter()
        .map(|x| x.as_u64().map(|v| v as usize).ok_or_else(|| "number expected".to_owned()))
        .collect()
}
