//! Uniform front for the scenario kinds: generate from (seed, property, run), execute against
//! the real library, shrink, (de)serialise.

use crate::c11;
use crate::hist;
use crate::json::J;
use crate::rng::{mix3, Rng};
use crate::scenario::Violation;
use std::collections::BTreeMap;

#[derive(Clone, Copy, Debug, PartialEq, Eq)]
pub enum Prop {
    C11,
    C12,
    C13,
}

impl Prop {
    pub fn parse(s: &str) -> Option<Prop> {
        match s {
            "C11" => Some(Prop::C11),
            "C12" => Some(Prop::C12),
            "C13" => Some(Prop::C13),
            _ => None,
        }
    }
    pub fn id(&self) -> &'static str {
        match self {
            Prop::C11 => "C11",
            Prop::C12 => "C12",
            Prop::C13 => "C13",
        }
    }
    fn num(&self) -> u64 {
        match self {
            Prop::C11 => 11,
            Prop::C12 => 12,
            Prop::C13 => 13,
        }
    }
}

#[derive(Clone, Debug, PartialEq)]
pub enum Scn {
    C11(c11::C11Scenario),
    Hist(hist::HistScenario),
    /// scripted working-directory scenario (runs alone: chdir is process-global)
    Cwd { seed: u64, variant: u64 },
}

pub struct RunOut {
    pub violation: Option<Violation>,
    pub gen_digest: u64,
    pub out_digest: u64,
    pub nontrivial: bool,
    pub steps: u64,
    pub executions: u64,
    pub counters: BTreeMap<String, u64>,
    /// digests of abstract states / transitions visited (history scenarios)
    pub states: Vec<u64>,
    pub transitions: Vec<u64>,
}

pub fn run_seed(base_seed: u64, prop: Prop, run: usize) -> u64 {
    mix3(base_seed, prop.num(), run as u64)
}

/// Generation is a pure function of (seed, property, run index, tier)
pub fn generate(base_seed: u64, prop: Prop, run: usize, thorough: bool) -> (Scn, String) {
    let mut rng = Rng::new(run_seed(base_seed, prop, run));
    match prop {
        Prop::C11 => {
            let (s, d) = c11::generate(&mut rng, thorough);
            (Scn::C11(s), d)
        }
        Prop::C12 | Prop::C13 => {
            let (s, d) = hist::generate(&mut rng, prop, thorough);
            (Scn::Hist(s), d)
        }
    }
}

fn b(x: bool) -> u64 {
    u64::from(x)
}

pub fn run(prop: Prop, s: &Scn) -> RunOut {
    match s {
        Scn::C11(s) => {
            let r = c11::run(s);
            let p = &r.probes;
            let mut c = BTreeMap::new();
            c.insert("probe_multi_import_file".to_owned(), b(p.multi_import_file));
            c.insert("probe_ambiguous_simple_name".to_owned(), b(p.ambiguous_simple_name));
            c.insert("probe_fwd_clash_with_imports".to_owned(), b(p.fwd_clash));
            c.insert("probe_duplicate_key".to_owned(), b(p.duplicate_key));
            c.insert(
                "probe_duplicate_key_kinds_differ".to_owned(),
                b(p.duplicate_key_kinds_differ),
            );
            c.insert("probe_same_line_diagnostics".to_owned(), b(p.same_line_diags));
            c.insert("probe_treeless_multi_diag".to_owned(), b(p.treeless_multi_diag));
            c.insert("probe_thread_reuse".to_owned(), b(p.thread_reuse));
            c.insert("probe_concurrent_validate".to_owned(), b(p.concurrent_validate));
            c.insert("probe_thread_reuse_after_64_contents".to_owned(), b(p.thread_reuse_after_64_contents));
            c.insert("files".to_owned(), p.files as u64);
            c.insert("diagnostics_in_canonical_execution".to_owned(), p.diagnostics as u64);
            c.insert("panicking_observations".to_owned(), p.panics as u64);
            for (k, v) in &r.table_policies {
                c.insert(format!("executions_policy_{k}"), *v as u64);
            }
            RunOut {
                nontrivial: p.nontrivial(),
                violation: r.violation,
                gen_digest: r.gen_digest,
                out_digest: r.out_digest,
                steps: r.steps as u64,
                executions: r.executions as u64,
                counters: c,
                states: r.schedules,
                transitions: Vec::new(),
            }
        }
        Scn::Hist(s) => hist::run(prop, s),
        Scn::Cwd { seed, variant } => crate::hist_run::run_cwd(*seed, *variant),
    }
}

/// Candidates (big structural cuts first) and the index where pure content shrinking starts
pub fn shrink_candidates(s: &Scn) -> (Vec<Scn>, usize) {
    match s {
        Scn::C11(s) => {
            let (v, b) = c11::shrink_candidates(s);
            (v.into_iter().map(Scn::C11).collect(), b)
        }
        Scn::Hist(s) => {
            let (v, b) = hist::shrink_candidates(s);
            (v.into_iter().map(Scn::Hist).collect(), b)
        }
        Scn::Cwd { .. } => (Vec::new(), 0),
    }
}

pub fn to_json(s: &Scn) -> J {
    match s {
        Scn::C11(s) => J::obj().set("kind", J::s("c11")).set("c11", c11::to_json(s)),
        Scn::Hist(s) => J::obj().set("kind", J::s("history")).set("history", hist::to_json(s)),
        Scn::Cwd { seed, variant } => J::obj()
            .set("kind", J::s("cwd"))
            .set("seed", J::u_str(*seed))
            .set("variant", J::u(*variant))
            .set("what", J::s("scripted scenario: parser created in directory A loads relative paths, the process changes to directory B where the same names are other files, loads again; see hist_run::run_cwd")),
    }
}

pub fn from_json(j: &J) -> Result<Scn, String> {
    match j.get("kind").and_then(|k| k.as_str()) {
        Some("c11") => Ok(Scn::C11(c11::from_json(j.get("c11").ok_or("c11 missing")?)?)),
        Some("history") => Ok(Scn::Hist(hist::from_json(
            j.get("history").ok_or("history missing")?,
        )?)),
        Some("cwd") => Ok(Scn::Cwd {
            seed: j.get("seed").and_then(|s| s.as_u64()).ok_or("cwd.seed")?,
            variant: j.get("variant").and_then(|s| s.as_u64()).ok_or("cwd.variant")?,
        }),
        _ => Err("scenario.kind unknown".to_owned()),
    }
}

/// Size measure reported by the minimiser
pub fn size(s: &Scn) -> (usize, usize) {
    match s {
        Scn::C11(s) => (
            s.execs.iter().map(|e| e.script.len() + 2).sum(),
            s.files.iter().map(|(_, c)| c.text().len()).sum(),
        ),
        Scn::Hist(s) => hist::size(s),
        Scn::Cwd { .. } => (8, 0),
    }
}
