//! Executors: caller threads owned by the simulator (token passing: exactly one caller runs
//! at any instant and the simulator decides which), hash-key policies (seam H1) and the
//! simulated disk with fault plans (seam H2).

use crate::canon::{FileResult, Outcome};
use crate::json::J;
use crate::rng::{mix2, mix3};
use aidl_parser::verif;
use aidl_parser::Parser;
use std::collections::{BTreeMap, VecDeque};
use std::io::{self, ErrorKind, Read};
use std::panic::{catch_unwind, AssertUnwindSafe};
use std::path::{Path, PathBuf};
use std::sync::mpsc::{channel, Sender};
use std::sync::{Arc, Mutex};
use std::thread::JoinHandle;

pub type P = Parser<PathBuf>;

const ODD_STEP: u64 = 0x9e37_79b9_7f4a_7c15;

/// Where the keys of the library's hash tables come from during one execution
#[derive(Clone, Copy, Debug, PartialEq, Eq)]
pub enum Policy {
    /// every table instance gets the same key
    Const(u64),
    /// table instance j of step s gets mix(k, s) + j * odd: a fresh key per instance, like std
    Stream(u64),
    /// every caller thread has its own base key and a running counter, like std's RandomState
    PerCaller(u64),
}

impl Policy {
    pub fn to_json(&self) -> J {
        let (n, k) = match self {
            Policy::Const(k) => ("const", k),
            Policy::Stream(k) => ("stream", k),
            Policy::PerCaller(k) => ("per_caller", k),
        };
        J::obj().set("kind", J::s(n)).set("key", J::u_str(*k))
    }

    pub fn from_json(j: &J) -> Result<Policy, String> {
        let k = j
            .get("key")
            .and_then(|k| k.as_u64())
            .ok_or("policy.key missing")?;
        match j.get("kind").and_then(|k| k.as_str()) {
            Some("const") => Ok(Policy::Const(k)),
            Some("stream") => Ok(Policy::Stream(k)),
            Some("per_caller") => Ok(Policy::PerCaller(k)),
            _ => Err("policy.kind unknown".to_owned()),
        }
    }

    pub fn name(&self) -> &'static str {
        match self {
            Policy::Const(_) => "const",
            Policy::Stream(_) => "stream",
            Policy::PerCaller(_) => "per_caller",
        }
    }

    /// Install the keys for step `step` on the calling (caller) thread
    pub fn install(&self, step: u64) {
        match self {
            Policy::Const(k) => verif::set_hash_keys(*k, 0),
            Policy::Stream(k) => verif::set_hash_keys(mix2(*k, step), ODD_STEP),
            Policy::PerCaller(_) => {} // set once when the caller thread starts
        }
    }
}

type Job = Box<dyn FnOnce() + Send>;

/// The caller threads of one execution
pub struct Callers {
    txs: Vec<Sender<Job>>,
    handles: Vec<JoinHandle<()>>,
}

impl Callers {
    /// `salt` distinguishes the caller sets of one run (system under test, references, ...)
    pub fn new(n: usize, policy: Policy, salt: u64) -> Callers {
        let mut txs = Vec::new();
        let mut handles = Vec::new();
        for c in 0..n {
            let (tx, rx) = channel::<Job>();
            let h = std::thread::Builder::new()
                .name(format!("caller-{c}"))
                .stack_size(8 << 20)
                .spawn(move || {
                    if let Policy::PerCaller(k) = policy {
                        verif::set_hash_keys(mix3(k, salt, c as u64), 1);
                    }
                    while let Ok(job) = rx.recv() {
                        job();
                    }
                })
                .expect("spawn caller");
            txs.push(tx);
            handles.push(h);
        }
        Callers { txs, handles }
    }

    pub fn len(&self) -> usize {
        self.txs.len()
    }

    /// Run `f` on caller `c` and wait for it: the token goes to the caller and comes back.
    pub fn exec<R: Send + 'static, F: FnOnce() -> R + Send + 'static>(&self, c: usize, f: F) -> R {
        let (rtx, rrx) = channel::<R>();
        let job: Job = Box::new(move || {
            let r = f();
            let _ = rtx.send(r);
        });
        self.txs[c % self.txs.len()]
            .send(job)
            .expect("caller thread is gone");
        rrx.recv().expect("caller thread died while holding the token")
    }
}

impl Drop for Callers {
    fn drop(&mut self) {
        self.txs.clear();
        for h in self.handles.drain(..) {
            let _ = h.join();
        }
    }
}

pub fn panic_message(p: Box<dyn std::any::Any + Send>) -> String {
    if let Some(s) = p.downcast_ref::<&str>() {
        (*s).to_owned()
    } else if let Some(s) = p.downcast_ref::<String>() {
        s.clone()
    } else {
        "<non-string panic payload>".to_owned()
    }
}

/// Install a silent panic hook (panics of the library are values here, not noise)
pub fn silence_panics() {
    std::panic::set_hook(Box::new(|_| {}));
}

/// `validate()` as a value
pub fn observe(parser: &P) -> Outcome {
    match catch_unwind(AssertUnwindSafe(|| {
        let res = parser.validate();
        let mut m: BTreeMap<PathBuf, FileResult> = BTreeMap::new();
        let mut dup = None;
        for (k, v) in res {
            if let Some(old) = m.insert(k.clone(), v) {
                dup = Some(old.id);
            }
        }
        (m, dup)
    })) {
        Ok((m, None)) => Outcome::Ok(m),
        Ok((_, Some(d))) => Outcome::Panic(format!("harness: duplicate key {d:?} in validate() output")),
        Err(p) => Outcome::Panic(panic_message(p)),
    }
}

/// `add_content` with panics caught; returns the panic message if any
pub fn add_content(parser: &mut P, id: PathBuf, text: &str) -> Option<String> {
    match catch_unwind(AssertUnwindSafe(|| parser.add_content(id, text))) {
        Ok(()) => None,
        Err(p) => Some(panic_message(p)),
    }
}

// ---------------------------------------------------------------------------------------------
// Simulated disk
// ---------------------------------------------------------------------------------------------

#[derive(Clone, Copy, Debug, PartialEq, Eq, PartialOrd, Ord)]
pub enum ErrK {
    NotFound,
    PermissionDenied,
    Other,
    UnexpectedEof,
    WouldBlock,
    IsADirectory,
    TimedOut,
}

impl ErrK {
    pub const OPEN: [ErrK; 3] = [ErrK::NotFound, ErrK::PermissionDenied, ErrK::Other];
    pub const READ: [ErrK; 5] = [
        ErrK::Other,
        ErrK::UnexpectedEof,
        ErrK::WouldBlock,
        ErrK::IsADirectory,
        ErrK::TimedOut,
    ];

    pub fn name(&self) -> &'static str {
        match self {
            ErrK::NotFound => "not_found",
            ErrK::PermissionDenied => "permission_denied",
            ErrK::Other => "other",
            ErrK::UnexpectedEof => "unexpected_eof",
            ErrK::WouldBlock => "would_block",
            ErrK::IsADirectory => "is_a_directory",
            ErrK::TimedOut => "timed_out",
        }
    }

    pub fn from_name(s: &str) -> Option<ErrK> {
        [
            ErrK::NotFound,
            ErrK::PermissionDenied,
            ErrK::Other,
            ErrK::UnexpectedEof,
            ErrK::WouldBlock,
            ErrK::IsADirectory,
            ErrK::TimedOut,
        ]
        .into_iter()
        .find(|k| k.name() == s)
    }

    pub fn to_io(&self) -> io::Error {
        let kind = match self {
            ErrK::NotFound => ErrorKind::NotFound,
            ErrK::PermissionDenied => ErrorKind::PermissionDenied,
            ErrK::Other => ErrorKind::Other,
            ErrK::UnexpectedEof => ErrorKind::UnexpectedEof,
            ErrK::WouldBlock => ErrorKind::WouldBlock,
            ErrK::IsADirectory => ErrorKind::Other, // `IsADirectory` is what the OS reports; the kind is irrelevant here
            ErrK::TimedOut => ErrorKind::TimedOut,
        };
        io::Error::new(kind, format!("simulated {}", self.name()))
    }
}

#[derive(Clone, Debug, PartialEq, Eq)]
pub enum ReadEv {
    /// deliver at most n bytes
    Chunk(usize),
    /// deliver bytes up to (not beyond) this absolute offset; skipped if already past it
    Until(usize),
    /// `ErrorKind::Interrupted` (EINTR): std retries
    Interrupted,
    /// fail the read
    Err(ErrK),
}

/// What the simulated disk does to the one `add_file` call the plan is attached to
#[derive(Clone, Debug, PartialEq, Eq, Default)]
pub struct FaultPlan {
    pub open_error: Option<ErrK>,
    /// consumed one per `read` call; afterwards the rest is delivered in one piece
    pub script: Vec<ReadEv>,
    /// torn save: the file ends after this many bytes
    pub truncate_at: Option<usize>,
    /// flipped stored byte: (index, xor mask)
    pub corrupt: Option<(usize, u8)>,
}

impl FaultPlan {
    pub fn is_none(&self) -> bool {
        *self == FaultPlan::default()
    }

    pub fn to_json(&self) -> J {
        let mut o = J::obj();
        if let Some(e) = self.open_error {
            o.put("open_error", J::s(e.name()));
        }
        if !self.script.is_empty() {
            o.put(
                "script",
                J::Arr(
                    self.script
                        .iter()
                        .map(|e| match e {
                            ReadEv::Chunk(n) => J::obj().set("chunk", J::u(*n as u64)),
                            ReadEv::Until(n) => J::obj().set("until", J::u(*n as u64)),
                            ReadEv::Interrupted => J::s("interrupted"),
                            ReadEv::Err(k) => J::obj().set("err", J::s(k.name())),
                        })
                        .collect(),
                ),
            );
        }
        if let Some(t) = self.truncate_at {
            o.put("truncate_at", J::u(t as u64));
        }
        if let Some((i, m)) = self.corrupt {
            o.put(
                "corrupt",
                J::Arr(vec![J::u(i as u64), J::u(u64::from(m))]),
            );
        }
        o
    }

    pub fn from_json(j: &J) -> Result<FaultPlan, String> {
        let mut p = FaultPlan::default();
        if let Some(e) = j.get("open_error").and_then(|e| e.as_str()) {
            p.open_error = Some(ErrK::from_name(e).ok_or("bad open_error")?);
        }
        if let Some(a) = j.get("script").and_then(|a| a.as_arr()) {
            for e in a {
                if e.as_str() == Some("interrupted") {
                    p.script.push(ReadEv::Interrupted);
                } else if let Some(n) = e.get("chunk").and_then(|n| n.as_u64()) {
                    p.script.push(ReadEv::Chunk(n as usize));
                } else if let Some(n) = e.get("until").and_then(|n| n.as_u64()) {
                    p.script.push(ReadEv::Until(n as usize));
                } else if let Some(k) = e.get("err").and_then(|k| k.as_str()) {
                    p.script
                        .push(ReadEv::Err(ErrK::from_name(k).ok_or("bad script err")?));
                } else {
                    return Err("bad script event".to_owned());
                }
            }
        }
        if let Some(t) = j.get("truncate_at").and_then(|t| t.as_u64()) {
            p.truncate_at = Some(t as usize);
        }
        if let Some(a) = j.get("corrupt").and_then(|a| a.as_arr()) {
            if a.len() == 2 {
                p.corrupt = Some((
                    a[0].as_u64().ok_or("bad corrupt")? as usize,
                    a[1].as_u64().ok_or("bad corrupt")? as u8,
                ));
            }
        }
        Ok(p)
    }
}

/// What actually happened during one simulated open + read (filled by the disk, read by the model)
#[derive(Clone, Debug, Default)]
pub struct ReadLog {
    pub opened: bool,
    pub opens: usize,
    pub open_error: Option<ErrK>,
    pub delivered: Vec<u8>,
    pub read_calls: usize,
    pub short_reads: usize,
    pub interrupts: usize,
    pub read_error: Option<ErrK>,
    pub eof_seen: bool,
    pub truncated: bool,
    pub corrupted: bool,
    pub reads_after_error: usize,
    /// the bytes of the file as the disk would deliver them to a reader that reads to the end
    pub effective: Option<Vec<u8>>,
}

struct FaultyReader {
    data: Vec<u8>,
    pos: usize,
    script: VecDeque<ReadEv>,
    log: Arc<Mutex<ReadLog>>,
    failed: bool,
}

impl Read for FaultyReader {
    fn read(&mut self, buf: &mut [u8]) -> io::Result<usize> {
        let mut log = self.log.lock().unwrap();
        log.read_calls += 1;
        if self.failed {
            log.reads_after_error += 1;
        }
        if buf.is_empty() {
            return Ok(0);
        }
        let remaining = self.data.len() - self.pos;
        // events that are already behind the read position are dropped
        while let Some(ReadEv::Until(abs)) = self.script.front() {
            if *abs <= self.pos {
                self.script.pop_front();
            } else {
                break;
            }
        }
        let want = match self.script.pop_front() {
            Some(ReadEv::Until(abs)) => {
                let n = abs - self.pos;
                if n > buf.len() {
                    // the buffer is smaller than the distance: keep the split point for the next read
                    self.script.push_front(ReadEv::Until(abs));
                }
                n
            }
            Some(ReadEv::Interrupted) => {
                log.interrupts += 1;
                return Err(io::Error::new(ErrorKind::Interrupted, "simulated EINTR"));
            }
            Some(ReadEv::Err(k)) => {
                log.read_error = Some(k);
                self.failed = true;
                return Err(k.to_io());
            }
            Some(ReadEv::Chunk(n)) => n.max(1),
            None => remaining,
        };
        let n = want.min(remaining).min(buf.len());
        if n == 0 {
            log.eof_seen = true;
            return Ok(0);
        }
        if n < remaining.min(buf.len()) {
            log.short_reads += 1;
        }
        buf[..n].copy_from_slice(&self.data[self.pos..self.pos + n]);
        log.delivered.extend_from_slice(&self.data[self.pos..self.pos + n]);
        self.pos += n;
        Ok(n)
    }
}

/// Install a one-shot simulated disk on the calling thread: the next `verif::open` sees
/// `content` (None: no such file) through `plan`. Returns the log the disk writes.
pub fn install_disk(
    expect_path: PathBuf,
    content: Option<Vec<u8>>,
    plan: FaultPlan,
) -> Arc<Mutex<ReadLog>> {
    let log = Arc::new(Mutex::new(ReadLog::default()));
    let log2 = log.clone();
    let content = Some(content);
    verif::set_disk(Some(Box::new(move |path: &Path| {
        let mut l = log2.lock().unwrap();
        if path != expect_path.as_path() {
            // the library asked for a file it was not told to load
            l.open_error = Some(ErrK::NotFound);
            return Err(io::Error::new(
                ErrorKind::NotFound,
                format!("simulated disk: unexpected path {}", path.display()),
            ));
        }
        l.opened = true;
        if let Some(e) = plan.open_error {
            l.open_error = Some(e);
            return Err(e.to_io());
        }
        // Note: a library that opens the file more than once sees the same file each time
        let mut data = match content.as_ref().and_then(|c| c.clone()) {
            Some(d) => d,
            None => {
                l.open_error = Some(ErrK::NotFound);
                return Err(ErrK::NotFound.to_io());
            }
        };
        l.opens += 1;
        if l.opens > 1 {
            // start the log over: the last complete pass is what counts
            l.delivered.clear();
            l.eof_seen = false;
            l.read_error = None;
        }
        if let Some(t) = plan.truncate_at {
            if t < data.len() {
                data.truncate(t);
                l.truncated = true;
            }
        }
        if let Some((i, m)) = plan.corrupt {
            if i < data.len() && m != 0 {
                data[i] ^= m;
                l.corrupted = true;
            }
        }
        l.effective = Some(data.clone());
        drop(l);
        Ok(Box::new(FaultyReader {
            data,
            pos: 0,
            script: plan.script.iter().cloned().collect(),
            log: log2.clone(),
            failed: false,
        }) as Box<dyn Read>)
    })));
    log
}

pub fn uninstall_disk() {
    verif::set_disk(None);
}

// ---------------------------------------------------------------------------------------------
// Concurrent validation of one shared parser
// ---------------------------------------------------------------------------------------------

/// Compile-time question "is T: Sync?" that does not fail to compile when the answer is no
/// (autoref specialisation: the inherent method only exists for `T: Sync`).
pub struct SyncProbe<T>(pub std::marker::PhantomData<T>);
pub trait SyncProbeFallback {
    fn is_sync(&self) -> bool {
        false
    }
}
impl<T> SyncProbeFallback for SyncProbe<T> {}
impl<T: Sync> SyncProbe<T> {
    pub fn is_sync(&self) -> bool {
        true
    }
}

struct Shared<'a>(&'a P);
// Only constructed after `SyncProbe::<P>` answered yes (see `observe_concurrently`).
unsafe impl<'a> Sync for Shared<'a> {}
unsafe impl<'a> Send for Shared<'a> {}

/// `k` threads call `validate()` on the same parser at the same moment (`validate` takes
/// `&self`, so this is within the API's contract whenever the parser type is `Sync`).
/// Returns None if the parser type is not `Sync`. This is real concurrency: the simulator does
/// not choose the interleaving here, it only demands that every thread sees the same result.
pub fn observe_concurrently(parser: &P, k: usize, policy: Policy, step: u64) -> Option<Vec<Outcome>> {
    #[allow(unused_imports)]
    use SyncProbeFallback as _;
    if !SyncProbe::<P>(std::marker::PhantomData).is_sync() {
        return None;
    }
    let shared = Shared(parser);
    let barrier = std::sync::Barrier::new(k);
    let outs = std::thread::scope(|s| {
        let mut hs = Vec::new();
        for i in 0..k {
            let shared = &shared;
            let barrier = &barrier;
            hs.push(s.spawn(move || {
                match policy {
                    Policy::PerCaller(key) => verif::set_hash_keys(mix3(key, step, i as u64), 1),
                    p => p.install(step.wrapping_add(i as u64)),
                }
                barrier.wait();
                observe(shared.0)
            }));
        }
        hs.into_iter()
            .map(|h| h.join().unwrap_or_else(|p| Outcome::Panic(panic_message(p))))
            .collect::<Vec<_>>()
    });
    Some(outs)
}

// ---------------------------------------------------------------------------------------------
// Use of the rest of the public API between validations
// ---------------------------------------------------------------------------------------------

/// What a client (a language server) does with the trees it got, on the thread that got them:
/// symbol walks, searches that stop early, lookups by position, formatting. All of it is
/// read-only by contract; whatever it leaves behind on the thread must not reach a later
/// validation. Panics are swallowed (C01-C20 other than the claimed ones are not judged here).
pub fn use_public_api(o: &Outcome) {
    use aidl_parser::symbol::Symbol;
    use aidl_parser::traverse::{self, SymbolFilter};
    let m = match o {
        Outcome::Ok(m) => m,
        Outcome::Panic(_) => return,
    };
    for r in m.values() {
        let t = match &r.ast {
            Some(t) => t,
            None => continue,
        };
        let _ = catch_unwind(AssertUnwindSafe(|| {
            let mut n = 0usize;
            traverse::walk_symbols(t, SymbolFilter::All, |s| {
                n += s.get_name().map(|x| x.len()).unwrap_or(0);
                let _ = s.get_details();
                let _ = s.get_signature();
            });
            // searches that stop at the first hit of each kind of symbol
            let _ = traverse::find_symbol(t, SymbolFilter::All, |s| matches!(s, Symbol::Type(_)));
            let _ = traverse::find_symbol(t, SymbolFilter::All, |s| matches!(s, Symbol::Arg(..)));
            let _ = traverse::find_symbol(t, SymbolFilter::ItemsAndItemElements, |s| matches!(s, Symbol::Method(..) | Symbol::Field(..)));
            let _ = traverse::find_symbol(t, SymbolFilter::ItemsOnly, |_| true);
            let _ = traverse::filter_symbols(t, SymbolFilter::All, |s| matches!(s, Symbol::Import(_)));
            // lookups by position: at every type and a little beside it
            let mut positions: Vec<(usize, usize)> = Vec::new();
            traverse::walk_types(t, |ty| positions.push(ty.symbol_range.start.line_col));
            for (l, c) in positions.into_iter().take(12) {
                let _ = traverse::find_symbol_at_line_col(t, SymbolFilter::All, (l, c));
                let _ = traverse::find_symbol_at_line_col(t, SymbolFilter::All, (l, c + 1));
            }
            traverse::walk_methods(t, |m| n += m.args.len());
            traverse::walk_args(t, |_, a| n += a.name.as_ref().map(|x| x.len()).unwrap_or(0));
            n
        }));
    }
}
