//! Execution of a history scenario against the real library, reference model and oracles
//! for C12 (results depend only on the surviving contents) and C13 (a file's result depends
//! only on its own text and the kinds of what it imports).

use crate::canon::{self, FileResult, Outcome};
use crate::exec::{self, Callers, ErrK, Policy, ReadEv, ReadLog, P};
use crate::hist::{ArgKind, HistScenario, Op};
use crate::rng::{digest_str, Digest};
use crate::scenario::{disk_slot, Content, Violation};
use crate::scn::{Prop, RunOut};
use aidl_parser::ast;
use std::collections::{BTreeMap, BTreeSet};
use std::panic::{catch_unwind, AssertUnwindSafe};
use std::path::{Path, PathBuf};
use std::rc::Rc;
use std::sync::atomic::{AtomicU64, Ordering};

type Meta = crate::scenario::DocMeta;

#[derive(Clone)]
struct Entry {
    text: String,
    meta: Option<Meta>,
    /// the id as spelled by the call that stored the current content (equal ids can be spelled
    /// differently: `d//e.aidl`, `d/e.aidl`)
    spelling: std::ffi::OsString,
}

fn meta_of(c: &Content) -> Option<Meta> {
    c.meta()
}

/// Result of parsing one text alone in a fresh parser (through the public API only)
struct Iso {
    panic: Option<String>,
    has_tree: bool,
    key: String,
    kind: String,
    imports: Vec<String>,
    /// does the isolated tree carry this SERIAL value (junk members may cost a document its tree)
    serials: Vec<u64>,
}

fn kind_str(k: &ast::ResolvedItemKind) -> &'static str {
    match k {
        ast::ResolvedItemKind::Interface => "interface",
        ast::ResolvedItemKind::Parcelable => "parcelable",
        ast::ResolvedItemKind::Enum => "enum",
        ast::ResolvedItemKind::ForwardDeclaredParcelable => "fwd",
        ast::ResolvedItemKind::UnknownImport => "unknown",
    }
}

static SCRATCH_NONCE: AtomicU64 = AtomicU64::new(0);

/// Set when the library does not go through the disk seam (H2) any more - e.g. after a
/// refactoring of `add_file` to `std::fs::read_to_string`. Every load then uses real files in a
/// scratch directory (the faults a real file system can produce), instead of judging the
/// library by a simulated disk it never consults.
pub static FORCE_PASSTHROUGH: std::sync::atomic::AtomicBool = std::sync::atomic::AtomicBool::new(false);

/// Does `add_file` consult the simulated disk?
pub fn probe_disk_seam() -> bool {
    let path = PathBuf::from("seam-probe/does-not-exist-on-the-real-disk.aidl");
    let log = exec::install_disk(
        path.clone(),
        Some(b"package p; interface I {}".to_vec()),
        crate::exec::FaultPlan::default(),
    );
    let mut p = P::new();
    let _ = catch_unwind(AssertUnwindSafe(|| p.add_file(&path)));
    exec::uninstall_disk();
    let opened = log.lock().unwrap().opened;
    opened
}

struct World<'a> {
    scn: &'a HistScenario,
    prop: Prop,
    refc: Callers,
    ref_step: u64,
    iso_cache: BTreeMap<String, Rc<Iso>>,
    stub_cache: BTreeMap<(String, String), Rc<(Option<ast::Aidl>, Vec<aidl_parser::diagnostic::Diagnostic>)>>,
    counters: BTreeMap<String, u64>,
    out: Digest,
    scratch: Option<String>,
}

impl<'a> World<'a> {
    fn count(&mut self, k: &str) {
        *self.counters.entry(k.to_owned()).or_default() += 1;
    }
    fn add(&mut self, k: &str, n: u64) {
        *self.counters.entry(k.to_owned()).or_default() += n;
    }

    fn next_ref_step(&mut self) -> u64 {
        self.ref_step += 1;
        1_000_000 + self.ref_step
    }

    /// Fresh parser loaded with `files` in the given order, validated once, on a reference caller
    fn fresh(&mut self, files: Vec<(PathBuf, String)>, policy: Policy) -> Outcome {
        let base = self.next_ref_step();
        self.ref_step += files.len() as u64 + 2;
        self.count("reference_builds");
        let ref_default = !self.scn.ctor_default;
        self.refc.exec(0, move || {
            policy.install(base);
            let mut p = if ref_default { P::default() } else { P::new() };
            for (i, (id, text)) in files.into_iter().enumerate() {
                policy.install(base + 1 + i as u64);
                if let Some(m) = exec::add_content(&mut p, id.clone(), &text) {
                    return Outcome::Panic(format!("add_content({}): {m}", id.display()));
                }
            }
            let o = exec::observe(&p);
            // the reference thread, too, is a client that works with what it gets
            exec::use_public_api(&o);
            o
        })
    }

    fn iso(&mut self, text: &str) -> Rc<Iso> {
        if let Some(i) = self.iso_cache.get(text) {
            return i.clone();
        }
        let o = self.fresh(vec![(PathBuf::from("<iso>"), text.to_owned())], self.scn.policy);
        self.count("isolated_parses");
        let iso = match o {
            Outcome::Panic(m) => Iso {
                panic: Some(m),
                has_tree: false,
                key: String::new(),
                kind: String::new(),
                imports: Vec::new(),
                serials: Vec::new(),
            },
            Outcome::Ok(m) => match m.values().next().and_then(|r| r.ast.as_ref()) {
                Some(t) => Iso {
                    panic: None,
                    has_tree: true,
                    key: t.get_key(),
                    kind: kind_str(&t.item.get_kind()).to_owned(),
                    imports: t.imports.iter().map(|i| i.get_qualified_name()).collect(),
                    serials: serials_of(t),
                },
                None => Iso {
                    panic: None,
                    has_tree: false,
                    key: String::new(),
                    kind: String::new(),
                    imports: Vec::new(),
                    serials: Vec::new(),
                },
            },
        };
        let rc = Rc::new(iso);
        self.iso_cache.insert(text.to_owned(), rc.clone());
        rc
    }

    fn real_path(&self, path: &str) -> String {
        match &self.scratch {
            Some(s) => format!("{s}/{}", path.trim_start_matches('/')),
            None => path.to_owned(),
        }
    }
}

fn sorted_files(model: &BTreeMap<PathBuf, Entry>) -> Vec<(PathBuf, String)> {
    model.iter().map(|(k, e)| (k.clone(), e.text.clone())).collect()
}

fn alt_policy(p: Policy, n: u64) -> Policy {
    match p {
        Policy::Const(k) => Policy::Const(k.wrapping_add(n)),
        Policy::Stream(k) => Policy::Stream(k ^ (n.wrapping_mul(0x9e37_79b9))),
        Policy::PerCaller(k) => Policy::Stream(k.wrapping_add(n)),
    }
}

fn serials_of(t: &ast::Aidl) -> Vec<u64> {
    let mut v: Vec<u64> = Vec::new();
    match &t.item {
        ast::Item::Interface(i) => {
            for e in &i.elements {
                if let ast::InterfaceElement::Const(c) = e {
                    if c.name == "SERIAL" {
                        v.extend(c.value.parse::<u64>().ok());
                    }
                }
            }
        }
        ast::Item::Parcelable(p) => {
            for e in &p.elements {
                if let ast::ParcelableElement::Const(c) = e {
                    if c.name == "SERIAL" {
                        v.extend(c.value.parse::<u64>().ok());
                    }
                }
            }
        }
        ast::Item::Enum(e) => {
            for el in &e.elements {
                if el.name == "SERIAL" {
                    v.extend(el.value.as_deref().and_then(|x| x.parse::<u64>().ok()));
                }
            }
        }
    }
    v
}

fn has_serial(t: &ast::Aidl, serial: u64) -> bool {
    let want = format!("{serial}");
    match &t.item {
        ast::Item::Interface(i) => i.elements.iter().any(|e| match e {
            ast::InterfaceElement::Const(c) => c.name == "SERIAL" && c.value == want,
            _ => false,
        }),
        ast::Item::Parcelable(p) => p.elements.iter().any(|e| match e {
            ast::ParcelableElement::Const(c) => c.name == "SERIAL" && c.value == want,
            _ => false,
        }),
        ast::Item::Enum(e) => e
            .elements
            .iter()
            .any(|el| el.name == "SERIAL" && el.value.as_deref() == Some(want.as_str())),
    }
}

fn excerpt_result(r: Option<&FileResult>) -> String {
    match r {
        None => "<absent>".to_owned(),
        Some(r) => {
            let mut s = String::new();
            match &r.ast {
                Some(t) => s.push_str(&format!(
                    "key={} kind={} resolved={:?}\n",
                    t.get_key(),
                    kind_str(&t.item.get_kind()),
                    canon::resolved_kinds(t)
                )),
                None => s.push_str("tree=none\n"),
            }
            for d in &r.diagnostics {
                s.push_str(&canon::diag_line(d));
                s.push('\n');
            }
            s
        }
    }
}

fn excerpt_outcome(o: &Outcome, file: &str) -> String {
    match o {
        Outcome::Panic(m) => format!("PANIC {m}"),
        Outcome::Ok(m) => excerpt_result(
            m.iter()
                .find(|(k, _)| format!("{}", k.display()) == file)
                .map(|(_, r)| r),
        ),
    }
}

struct C13State {
    /// id -> (text, facts)
    facts: BTreeMap<PathBuf, (String, String)>,
    reference: Outcome,
    live: usize,
}

pub fn run(prop: Prop, s: &HistScenario) -> RunOut {
    if s.coarse_ids && prop == Prop::C12 {
        return crate::coarse::run(s);
    }
    let passthrough = s
        .steps
        .iter()
        .any(|st| matches!(&st.op, Op::AddFile { passthrough: true, .. }))
        || (FORCE_PASSTHROUGH.load(Ordering::SeqCst) && s.steps.iter().any(|st| matches!(&st.op, Op::AddFile { .. } | Op::DiskWrite { .. })));
    let scratch = if passthrough {
        let dir = format!(
            "{}/.scratch/{}-{}",
            std::env::var("VERIF_DIR").unwrap_or_else(|_| "/verif".to_owned()),
            std::process::id(),
            SCRATCH_NONCE.fetch_add(1, Ordering::SeqCst)
        );
        for d in ["", "d", "abs/p", "p/q", "gen", "never"] {
            let _ = std::fs::create_dir_all(format!("{dir}/{d}"));
        }
        Some(dir)
    } else {
        None
    };
    let mut w = World {
        scn: s,
        prop,
        refc: Callers::new(1, s.policy, 7777),
        ref_step: 0,
        iso_cache: BTreeMap::new(),
        stub_cache: BTreeMap::new(),
        counters: BTreeMap::new(),
        out: Digest::new(),
        scratch,
    };
    let r = run_inner(&mut w, s);
    if let Some(dir) = &w.scratch {
        let _ = std::fs::remove_dir_all(dir);
    }
    r
}

fn run_inner(w: &mut World, s: &HistScenario) -> RunOut {
    let prop = w.prop;
    let policy = s.policy;
    let callers = Callers::new(s.n_callers, policy, 1);
    let mut model: BTreeMap<PathBuf, Entry> = BTreeMap::new();
    // slot -> (bytes, document the bytes were rendered from)
    let mut disk: BTreeMap<String, (Vec<u8>, Option<Meta>, String)> = BTreeMap::new();
    let mut violation: Option<Violation> = None;
    let mut states: Vec<u64> = Vec::new();
    let mut transitions: Vec<u64> = Vec::new();
    let mut step_no = 0u64;
    let ctor_default = s.ctor_default;
    let mut parser: P = callers.exec(s.steps.first().map(|st| st.caller).unwrap_or(0), move || {
        policy.install(0);
        // the long-lived parser and the references come from different constructors
        if ctor_default {
            P::default()
        } else {
            P::new()
        }
    });
    // the shadow parser: created on another caller than the parser under test
    let mut shadow: Option<P> = if s.shadow_parser && prop == Prop::C12 {
        let c = s.steps.first().map(|st| st.caller + 1).unwrap_or(1);
        w.count("shadow_parser_runs");
        Some(callers.exec(c, move || {
            policy.install(u64::MAX / 2);
            P::new()
        }))
    } else {
        None
    };
    let alt_text = |i: u64| -> String {
        match i % 4 {
            0 => format!("package alt; parcelable A{} {{ int f; }}", i % 3),
            1 => format!("package alt; import alt.A0; interface I{} {{ void f(in A0 a); }}", i % 3),
            2 => format!("package alt; enum A{} {{ X, }}", i % 3),
            _ => "package alt; interface {".to_owned(),
        }
    };
    let mut prev_c13: Option<C13State> = None;
    // bookkeeping for probes / non-triviality
    let mut ever_removed: BTreeSet<PathBuf> = BTreeSet::new();
    let mut mutations_since_obs = 0usize;
    let mut max_live = 0usize;
    let mut interesting_mutation_pending = false;
    let mut nontrivial = false;
    let mut removed_total = 0usize;
    // live ids loaded from disk -> slot; ids whose file changed on disk after they were loaded
    let mut loaded_from: BTreeMap<PathBuf, String> = BTreeMap::new();
    let mut stale: BTreeSet<PathBuf> = BTreeSet::new();
    let mut cur_state = abstract_state(w, &model);
    states.push(cur_state);

    for (si, st) in s.steps.iter().enumerate() {
        step_no += 1;
        let mut fault_name = "none".to_owned();
        let mut observe_times = if s.observe_every_step { 1 } else { 0 };
        w.count(&format!("op_{}", st.op.kind_name()));
        if !st.tag.is_empty() {
            let tag = st.tag.split(':').next().unwrap_or("").to_owned();
            w.count(&format!("tag_{tag}"));
        }
        match &st.op {
            Op::Add { path, content } => {
                let text = content.text();
                let iso = w.iso(&text);
                if iso.panic.is_some() {
                    // C01's business: the input panics a fresh parser on its own
                    w.count("c01_pathological_inputs_skipped");
                    continue;
                }
                let id = PathBuf::from(w.real_path(path));
                let id2 = id.clone();
                let text2 = text.clone();
                let (p, panic) = callers.exec(st.caller, move || {
                    policy.install(step_no);
                    let mut parser = parser;
                    let panic = exec::add_content(&mut parser, id2, &text2);
                    (parser, panic)
                });
                parser = p;
                if let Some(m) = panic {
                    if prop == Prop::C12 {
                        violation = Some(Violation {
                            property: "C12",
                            clause: "panic".to_owned(),
                            signature: "panic:add_content".to_owned(),
                            detail: format!("step {si}: add_content({path}) panicked on the long-lived parser ({m}) but not on a fresh parser"),
                            left: m,
                            right: String::new(),
                        });
                        break;
                    }
                    continue;
                }
                if model.contains_key(&id) {
                    w.count("replaces");
                    interesting_mutation_pending = true;
                    if ever_removed.contains(&id) {
                        w.count("probe_remove_then_readd");
                    }
                    // replace changing the kind of a key another live file imports
                    let old = w.iso(&model[&id].text.clone());
                    if old.has_tree && iso.has_tree && old.key == iso.key && old.kind != iso.kind {
                        let texts: Vec<String> = model
                            .iter()
                            .filter(|(k, _)| **k != id)
                            .map(|(_, e)| e.text.clone())
                            .collect();
                        for t in texts {
                            if w.iso(&t).imports.contains(&old.key) {
                                w.count("probe_replace_changes_kind_of_imported_key");
                                break;
                            }
                        }
                    }
                } else if ever_removed.contains(&id) {
                    w.count("probe_remove_then_readd");
                }
                loaded_from.remove(&id);
                stale.remove(&id);
                // Note: BTreeMap::insert keeps the old key on replacement, like the library's HashMap
                let spelling = id.as_os_str().to_owned();
                let mirror_id = id.clone();
                model.insert(
                    id,
                    Entry {
                        text,
                        meta: meta_of(content),
                        spelling,
                    },
                );
                mutations_since_obs += 1;
                if let Some(sh) = shadow.take() {
                    let t = alt_text(step_no);
                    shadow = Some(callers.exec(st.caller, move || {
                        policy.install(step_no + 500_000);
                        let mut sh = sh;
                        let _ = exec::add_content(&mut sh, mirror_id, &t);
                        sh
                    }));
                }
            }
            Op::Remove { path } => {
                let id = PathBuf::from(w.real_path(path));
                let id2 = id.clone();
                let p = callers.exec(st.caller, move || {
                    policy.install(step_no);
                    let mut parser = parser;
                    let r = catch_unwind(AssertUnwindSafe(|| parser.remove_content(id2)));
                    (parser, r.err().map(exec::panic_message))
                });
                parser = p.0;
                if let Some(m) = p.1 {
                    if prop == Prop::C12 {
                        violation = Some(Violation {
                            property: "C12",
                            clause: "panic".to_owned(),
                            signature: "panic:remove_content".to_owned(),
                            detail: format!("step {si}: remove_content({path}) panicked: {m}"),
                            left: m,
                            right: String::new(),
                        });
                        break;
                    }
                }
                if let Some(sh) = shadow.take() {
                    let mirror_id = id.clone();
                    shadow = Some(callers.exec(st.caller, move || {
                        policy.install(step_no + 500_000);
                        let mut sh = sh;
                        sh.remove_content(mirror_id);
                        sh
                    }));
                }
                loaded_from.remove(&id);
                stale.remove(&id);
                if model.remove(&id).is_some() {
                    w.count("removes_live");
                    ever_removed.insert(id);
                    interesting_mutation_pending = true;
                    removed_total += 1;
                    if removed_total == 16 {
                        w.count("probe_table_shrink_16_removed");
                    }
                } else {
                    w.count("removes_absent");
                    interesting_mutation_pending = true;
                }
                mutations_since_obs += 1;
            }
            Op::Validate { times } => {
                observe_times = (*times).max(1);
            }
            Op::RemoveAbsentMany { n } => {
                let n = *n;
                let p = callers.exec(st.caller, move || {
                    policy.install(step_no);
                    let mut parser = parser;
                    let id = PathBuf::from("never/added/by/anyone.aidl");
                    for _ in 0..n {
                        parser.remove_content(id.clone());
                    }
                    parser
                });
                parser = p;
                mutations_since_obs += 1;
                if let Some(sh) = shadow.take() {
                    shadow = Some(callers.exec(st.caller, move || {
                        let mut sh = sh;
                        let id = PathBuf::from("never/added/by/anyone.aidl");
                        for _ in 0..n {
                            sh.remove_content(id.clone());
                        }
                        sh
                    }));
                }
                if n >= 65000 {
                    w.count("probe_65536_mutations_between_validations");
                }
            }
            Op::Warmup { n } => {
                let n = *n;
                callers.exec(st.caller, move || {
                    policy.install(step_no);
                    let mut p = P::new();
                    for i in 0..n {
                        let text = format!("package warm; parcelable W{step_no}x{i} {{ int f; }}");
                        let _ = exec::add_content(&mut p, PathBuf::from(format!("warm/{i}.aidl")), &text);
                    }
                    let _ = exec::observe(&p);
                });
                if n >= 64 {
                    w.count("probe_caller_warmup_64_contents");
                }
            }
            Op::DiskWrite { path, content, tail } => {
                let mut bytes = content.text().into_bytes();
                // a tail that is a well-formed comment leaves the document what it was
                let comment_tail = tail.is_empty()
                    || (tail.starts_with(b"\n//") && std::str::from_utf8(tail.as_slice()).is_ok());
                let meta = if comment_tail { meta_of(content) } else { None };
                bytes.extend_from_slice(tail.as_slice());
                if let Some(dir) = &w.scratch {
                    let real = format!("{dir}/{}", disk_slot(path).trim_start_matches('/'));
                    if let Some(parent) = Path::new(&real).parent() {
                        let _ = std::fs::create_dir_all(parent);
                    }
                    // some files are reached through a symbolic link (a readable file all the same)
                    let via_link = digest_str(&disk_slot(path)) % 3 == 0;
                    let _ = std::fs::remove_file(&real);
                    let wrote = if via_link {
                        let target = format!("{real}.target");
                        let r = std::fs::write(&target, &bytes);
                        let _ = std::os::unix::fs::symlink(&target, &real);
                        w.count("passthrough_symlinked_files");
                        r
                    } else {
                        std::fs::write(&real, &bytes)
                    };
                    if wrote.is_err() {
                        w.count("harness_scratch_write_failed");
                    }
                }
                let slot = disk_slot(path);
                // the parser must not notice: every live id loaded from this slot is now stale
                for (id, sl) in &loaded_from {
                    if *sl == slot {
                        stale.insert(id.clone());
                    }
                }
                disk.insert(slot, (bytes, meta, content.text()));
            }
            Op::AddFile {
                path,
                arg,
                plan,
                passthrough,
            } => {
                let slot = disk_slot(path);
                let on_disk = disk.get(&slot).cloned();
                let real = w.real_path(path);
                let id = PathBuf::from(&real);
                let plan2 = plan.clone();
                let bytes = on_disk.as_ref().map(|d| d.0.clone());
                let arg = *arg;
                let forced = FORCE_PASSTHROUGH.load(Ordering::SeqCst);
                let pt = *passthrough || forced;
                // pass-through: the plan is applied to the real file (what a real disk can do)
                let mut pt_eff: Option<Vec<u8>> = None;
                let mut pt_touched = false;
                if pt {
                    let slot_file = match &w.scratch {
                        Some(dir) => format!("{dir}/{}", slot.trim_start_matches('/')),
                        None => String::new(),
                    };
                    if let Some((b, _, _)) = &on_disk {
                        if plan.open_error.is_some() {
                            let _ = std::fs::remove_file(&slot_file);
                            pt_touched = true;
                        } else {
                            let mut eff = b.clone();
                            if let Some(t) = plan.truncate_at {
                                if t < eff.len() {
                                    eff.truncate(t);
                                    w.count("fault_truncated_fired");
                                    fault_name = "truncated".to_owned();
                                }
                            }
                            if let Some((i, m)) = plan.corrupt {
                                if i < eff.len() && m != 0 {
                                    eff[i] ^= m;
                                    w.count("fault_flipped_byte_fired");
                                    fault_name = "flipped_byte".to_owned();
                                }
                            }
                            if eff != *b {
                                let _ = std::fs::write(&slot_file, &eff);
                                pt_touched = true;
                            }
                            pt_eff = Some(eff);
                        }
                    }
                }
                let real2 = real.clone();
                let (p, res, log) = callers.exec(st.caller, move || {
                    policy.install(step_no);
                    let mut parser = parser;
                    let log = if pt {
                        None
                    } else {
                        Some(exec::install_disk(PathBuf::from(&real2), bytes, plan2))
                    };
                    let r = catch_unwind(AssertUnwindSafe(|| match arg {
                        ArgKind::Str => parser.add_file(real2.as_str()),
                        ArgKind::String => parser.add_file(real2.clone()),
                        ArgKind::Path => parser.add_file(Path::new(&real2)),
                        ArgKind::PathBuf => parser.add_file(PathBuf::from(&real2)),
                    }));
                    exec::uninstall_disk();
                    let r = match r {
                        Ok(Ok(())) => Ok(Ok(())),
                        Ok(Err(e)) => Ok(Err(format!("{:?}: {e}", e.kind()))),
                        Err(p) => Err(exec::panic_message(p)),
                    };
                    let log: Option<ReadLog> = log.map(|l| l.lock().unwrap().clone());
                    (parser, r, log)
                });
                parser = p;
                mutations_since_obs += 1;
                // What the model expects, from what the disk actually did
                let (verdict, delivered): (Option<bool>, Vec<u8>) = match &log {
                    Some(l) => {
                        if !l.opened {
                            w.count("harness_disk_not_consulted");
                        }
                        if l.short_reads > 0 {
                            w.add("fault_short_reads_fired", l.short_reads as u64);
                            fault_name = "short_reads".to_owned();
                        }
                        if l.interrupts > 0 {
                            w.add("fault_eintr_fired", l.interrupts as u64);
                            fault_name = "eintr".to_owned();
                        }
                        if l.truncated {
                            w.count("fault_truncated_fired");
                            fault_name = "truncated".to_owned();
                        }
                        if l.corrupted {
                            w.count("fault_flipped_byte_fired");
                            fault_name = "flipped_byte".to_owned();
                        }
                        if let Some(e) = l.open_error {
                            if e == ErrK::NotFound && plan.open_error.is_none() {
                                w.count("fault_missing_file_fired");
                                fault_name = "missing_file".to_owned();
                            } else {
                                w.count(&format!("fault_open_error_{}_fired", e.name()));
                                fault_name = "open_error".to_owned();
                            }
                        }
                        if let Some(e) = l.read_error {
                            w.count(&format!("fault_read_error_{}_fired", e.name()));
                            fault_name = "read_error".to_owned();
                            if !l.delivered.is_empty() {
                                w.count("probe_load_failed_after_some_bytes");
                            }
                        }
                        if l.reads_after_error > 0 {
                            w.count("reads_after_error");
                        }
                        // What a correct reader (one that reads to the end) must see
                        let eff: Vec<u8> = l.effective.clone().unwrap_or_default();
                        let utf8 = std::str::from_utf8(&eff).is_ok();
                        if l.open_error.is_none() && !utf8 {
                            w.count("fault_invalid_utf8_fired");
                            fault_name = "invalid_utf8".to_owned();
                        }
                        // is a scripted read error certainly reached before the data runs out?
                        let mut reach = 0usize;
                        let mut certain_error = false;
                        let mut possible_error = false;
                        for ev in &plan.script {
                            match ev {
                                ReadEv::Chunk(n) => reach = reach.saturating_add((*n).max(1)),
                                ReadEv::Until(abs) => reach = reach.max(*abs),
                                ReadEv::Interrupted => {}
                                ReadEv::Err(_) => {
                                    possible_error = true;
                                    if reach < eff.len() {
                                        certain_error = true;
                                    }
                                }
                            }
                        }
                        let verdict: Option<bool> = if l.open_error.is_some() || !utf8 || certain_error {
                            Some(false)
                        } else if !possible_error {
                            Some(true)
                        } else if l.read_error.is_some() {
                            Some(false)
                        } else if l.eof_seen {
                            Some(true)
                        } else {
                            None // the library stopped early and the error sat at the very end: either answer is defensible
                        };
                        if verdict == Some(true) && !l.eof_seen {
                            w.count("load_stopped_before_eof");
                        }
                        (verdict, eff)
                    }
                    None => {
                        // pass-through: the real file system decides; the harness wrote the bytes
                        w.count("passthrough_loads");
                        // put the file back as the model has it (only if the fault changed it: an
                        // untouched file keeps its modification time)
                        if let (Some(dir), Some((b, _, _)), true) = (&w.scratch, &on_disk, pt_touched) {
                            let slot_file = format!("{dir}/{}", slot.trim_start_matches('/'));
                            let _ = std::fs::write(&slot_file, b);
                        }
                        match &pt_eff {
                            Some(b) => {
                                let utf8 = std::str::from_utf8(b).is_ok();
                                if !utf8 {
                                    w.count("fault_invalid_utf8_fired");
                                    fault_name = "invalid_utf8".to_owned();
                                }
                                (Some(utf8), b.clone())
                            }
                            None => {
                                if on_disk.is_some() {
                                    w.count("fault_open_error_not_found_fired");
                                    fault_name = "open_error".to_owned();
                                } else {
                                    w.count("fault_missing_file_fired");
                                    fault_name = "missing_file".to_owned();
                                }
                                (Some(false), Vec::new())
                            }
                        }
                    }
                };
                match res {
                    Err(m) => {
                        // panic inside add_file: pathological content or a defect
                        let text = String::from_utf8_lossy(&delivered).to_string();
                        let iso = w.iso(&text);
                        if iso.panic.is_some() {
                            w.count("c01_pathological_inputs_skipped");
                        } else if prop == Prop::C12 {
                            violation = Some(Violation {
                                property: "C12",
                                clause: "panic".to_owned(),
                                signature: "panic:add_file".to_owned(),
                                detail: format!("step {si}: add_file({path}) panicked ({m}) although its content does not panic a fresh parser"),
                                left: m,
                                right: String::new(),
                            });
                            break;
                        }
                    }
                    Ok(r) => {
                        let expect_ok = verdict.unwrap_or(r.is_ok());
                        if verdict.is_none() {
                            w.count("add_file_result_ambiguous_accepted");
                        }
                        if prop == Prop::C12 && r.is_ok() != expect_ok {
                            violation = Some(Violation {
                                property: "C12",
                                clause: "add_file_result".to_owned(),
                                signature: format!(
                                    "add_file_result:{}:{}",
                                    if expect_ok { "expected_ok" } else { "expected_err" },
                                    fault_name
                                ),
                                detail: format!(
                                    "step {si}: add_file({path}) returned {:?} but the disk {} (fault: {fault_name}, plan: {})",
                                    r,
                                    if expect_ok {
                                        "delivered the complete file as valid UTF-8"
                                    } else {
                                        "failed, or delivered bytes that are not valid UTF-8"
                                    },
                                    plan.to_json().to_string_compact()
                                ),
                                left: format!("{r:?}"),
                                right: format!("expected {}", if expect_ok { "Ok(())" } else { "Err(_)" }),
                            });
                            break;
                        }
                        if expect_ok {
                            let text = String::from_utf8(delivered).unwrap_or_default();
                            let iso = w.iso(&text);
                            if iso.panic.is_some() {
                                w.count("c01_pathological_inputs_skipped");
                            }
                            let meta = match &on_disk {
                                Some((b, m, _)) if b.as_slice() == text.as_bytes() => m.clone(),
                                _ => None,
                            };
                            w.count("loads_ok");
                            if model.contains_key(&id) {
                                w.count("replaces");
                            }
                            stale.remove(&id);
                            loaded_from.insert(id.clone(), slot.clone());
                            let spelling = id.as_os_str().to_owned();
                            model.insert(id, Entry { text, meta, spelling });
                        } else {
                            w.count("loads_failed");
                            interesting_mutation_pending = true;
                        }
                    }
                }
            }
        }
        max_live = max_live.max(model.len());
        let new_state = abstract_state(w, &model);
        {
            let mut d = Digest::new();
            d.u64(cur_state);
            d.str(st.op.kind_name());
            d.str(&fault_name);
            transitions.push(d.finish());
        }
        cur_state = new_state;
        states.push(new_state);

        if observe_times == 0 {
            continue;
        }
        // ------------------------------------------------------------------ observation
        if mutations_since_obs >= 3 {
            w.count("probe_observation_free_stretch_3_mutations");
        }
        mutations_since_obs = 0;
        w.count("observations");
        if interesting_mutation_pending && max_live >= 2 {
            nontrivial = prop == Prop::C12 || nontrivial;
        }
        interesting_mutation_pending = false;
        if stale.iter().any(|id| model.contains_key(id)) {
            w.count("fault_stale_disk_observed");
        }

        let reference = w.fresh(sorted_files(&model), policy);
        if matches!(reference, Outcome::Panic(_)) {
            w.count("reference_panicked");
        }

        if prop == Prop::C12 {
            if let Some(sh) = shadow.take() {
                // the other parser is validated on the observing thread first
                shadow = Some(callers.exec(st.obs_caller, move || {
                    policy.install(step_no * 1000 + 400);
                    let _ = exec::observe(&sh);
                    sh
                }));
            }
            let parser_ref = parser;
            let concurrent = st.concurrent;
            if concurrent > 1 {
                w.count("probe_concurrent_validate");
            }
            let (p, outs) = callers.exec(st.obs_caller, move || {
                let mut v = Vec::new();
                if concurrent > 1 {
                    // several threads validate the shared parser at once, before anybody else did
                    if let Some(outs) = exec::observe_concurrently(&parser_ref, concurrent, policy, step_no * 1000 + 700) {
                        v.extend(outs);
                    }
                }
                for r in 0..observe_times {
                    policy.install(step_no * 1000 + 500 + r as u64);
                    let o = exec::observe(&parser_ref);
                    // a client works with the result on this thread before anything else happens
                    exec::use_public_api(&o);
                    v.push(o);
                }
                (parser_ref, v)
            });
            parser = p;
            for o in &outs {
                let mut text = canon::canon_outcome(o);
                if let Some(dir) = &w.scratch {
                    text = text.replace(dir.as_str(), "<scratch>");
                }
                w.out.str(&text);
            }
            violation = check_c12(w, si, &model, &outs, &reference);
            if violation.is_some() {
                break;
            }
        } else {
            let mut text = canon::canon_outcome(&reference);
            if let Some(dir) = &w.scratch {
                text = text.replace(dir.as_str(), "<scratch>");
            }
            w.out.str(&text);
            let (v, state, nt) = check_c13(w, si, &model, reference, prev_c13.as_ref());
            if nt {
                nontrivial = true;
            }
            prev_c13 = Some(state);
            if v.is_some() {
                violation = v;
                break;
            }
        }
    }
    drop(parser);
    drop(shadow);
    let mut counters = std::mem::take(&mut w.counters);
    counters.insert("max_live_files".to_owned(), max_live as u64);
    RunOut {
        violation,
        gen_digest: digest_str(&crate::hist::to_json(s).to_string_compact()),
        out_digest: w.out.finish(),
        nontrivial,
        steps: s.steps.len() as u64,
        executions: 1,
        counters,
        states,
        transitions,
    }
}

fn abstract_state(w: &mut World, model: &BTreeMap<PathBuf, Entry>) -> u64 {
    let mut d = Digest::new();
    let scratch = w.scratch.clone();
    for (k, e) in model {
        let mut ks = k.to_string_lossy().to_string();
        if let Some(dir) = &scratch {
            ks = ks.replace(dir.as_str(), "<scratch>");
        }
        d.str(&ks);
        let iso = w.iso(&e.text);
        if iso.has_tree {
            d.str(&iso.key);
            d.str(&iso.kind);
            d.u64(iso.imports.len() as u64);
        } else {
            d.str("<no tree>");
        }
    }
    d.finish()
}

// ---------------------------------------------------------------------------------------------
// C12
// ---------------------------------------------------------------------------------------------

fn check_c12(
    w: &mut World,
    si: usize,
    model: &BTreeMap<PathBuf, Entry>,
    outs: &[Outcome],
    reference: &Outcome,
) -> Option<Violation> {
    let first = &outs[0];
    // clause 5: idempotence of back-to-back validations
    for (ri, o) in outs.iter().enumerate().skip(1) {
        if let Some((file, what)) = canon::first_difference(first, o) {
            return Some(Violation {
                property: "C12",
                clause: "idempotence".to_owned(),
                signature: format!("idempotence:{what}"),
                detail: format!("after step {si}: validation #{ri} differs from validation #0 of the same state in the {what} of {file}"),
                left: excerpt_outcome(first, &file),
                right: excerpt_outcome(o, &file),
            });
        }
    }
    if outs.len() > 1 {
        w.count("idempotence_checks");
    }
    // A panic of the long-lived parser that a fresh parser shares is C01's business
    if let (Outcome::Panic(_), Outcome::Panic(_)) = (first, reference) {
        w.count("c01_validate_panics_shared_with_reference");
        return None;
    }
    // clause 2: one result per live id, tagged with that id
    if let Outcome::Ok(m) = first {
        let got: Vec<&PathBuf> = m.keys().collect();
        let want: Vec<&PathBuf> = model.keys().collect();
        if got != want {
            return Some(Violation {
                property: "C12",
                clause: "key_set".to_owned(),
                signature: "key_set".to_owned(),
                detail: format!("after step {si}: validate() returned ids {got:?} but the surviving ids are {want:?}"),
                left: format!("{got:?}"),
                right: format!("{want:?}"),
            });
        }
        for (k, r) in m {
            if r.id != *k {
                return Some(Violation {
                    property: "C12",
                    clause: "id_tag".to_owned(),
                    signature: "id_tag".to_owned(),
                    detail: format!("after step {si}: the result stored under {k:?} is tagged with id {:?}", r.id),
                    left: format!("{k:?}"),
                    right: format!("{:?}", r.id),
                });
            }
        }
        // The id a result is tagged with: equal (==) to the model's by the id_tag clause above.
        // Whether it is also the very id object given by the latest add (an equal PathBuf can be
        // spelled differently) is counted, not judged: implementations legitimately differ.
        for (k, e) in model {
            if let Some(r) = m.get(k) {
                if r.id.as_os_str() != e.spelling.as_os_str() {
                    w.count("note_id_spelling_is_not_the_latest_add");
                    break;
                }
            }
        }
        // clause 4: attribution of every well-formed generated document to its latest version
        for (k, e) in model {
            if let Some(meta) = &e.meta {
                let iso = w.iso(&e.text);
                if !iso.has_tree || !iso.serials.contains(&meta.serial) {
                    // recovered syntax errors cost this document its tree or its serial
                    w.count("attribution_skipped_no_isolated_tree");
                    continue;
                }
                let r = &m[k];
                let ok = match &r.ast {
                    Some(t) => {
                        has_serial(t, meta.serial)
                            && t.package.name == meta.pkg
                            && t.item.get_name() == meta.name
                            && kind_str(&t.item.get_kind()) == meta.kind
                    }
                    None => false,
                };
                w.count("attribution_checks");
                if !ok {
                    return Some(Violation {
                        property: "C12",
                        clause: "attribution".to_owned(),
                        signature: "attribution".to_owned(),
                        detail: format!(
                            "after step {si}: the tree returned for {k:?} is not the one of its latest content (expected {} {}.{} with SERIAL = {})",
                            meta.kind, meta.pkg, meta.name, meta.serial
                        ),
                        left: excerpt_result(Some(r)),
                        right: String::new(),
                    });
                }
            }
        }
        // probe: duplicate key present at this observation
        let mut seen = BTreeSet::new();
        for r in m.values() {
            if let Some(t) = &r.ast {
                if !seen.insert(t.get_key()) {
                    w.count("probe_duplicate_key_at_observation");
                    break;
                }
            }
        }
    }
    // clause 3: equal to a fresh parser holding the surviving contents
    if let Some((file, what)) = canon::first_difference(reference, first) {
        // Narrow relaxation: only a violation of C12 if fresh parsers agree among themselves
        let files = sorted_files(model);
        let mut rev = files.clone();
        rev.reverse();
        let mut rot = files.clone();
        if !rot.is_empty() {
            let k = rot.len() / 2;
            rot.rotate_left(k);
        }
        let p = w.scn.policy;
        let others = vec![
            w.fresh(rev, alt_policy(p, 1)),
            w.fresh(rot, alt_policy(p, 2)),
            w.fresh(files, alt_policy(p, 3)),
        ];
        let unanimous = others
            .iter()
            .all(|o| canon::first_difference(reference, o).is_none());
        if !unanimous {
            w.count("nondeterministic_reference_not_reported_here");
            return None;
        }
        let is_panic = matches!(first, Outcome::Panic(_)) || matches!(reference, Outcome::Panic(_));
        return Some(Violation {
            property: "C12",
            clause: "history".to_owned(),
            signature: format!("history:{}", if is_panic { "panic" } else { what.as_str() }),
            detail: format!(
                "after step {si}: the long-lived parser and four fresh parsers holding the same {} surviving contents (which agree among themselves) differ in the {what} of {file}",
                model.len()
            ),
            left: excerpt_outcome(first, &file),
            right: excerpt_outcome(reference, &file),
        });
    }
    w.count("reference_comparisons");
    None
}

// ---------------------------------------------------------------------------------------------
// C13
// ---------------------------------------------------------------------------------------------

fn stub_text(key: &str, kind: &str) -> Option<String> {
    let (pkg, name) = key.rsplit_once('.')?;
    Some(match kind {
        "interface" => format!("package {pkg}; interface {name} {{}}"),
        "parcelable" => format!("package {pkg}; parcelable {name} {{}}"),
        "enum" => format!("package {pkg}; enum {name} {{ STUB }}"),
        _ => return None,
    })
}

fn check_c13(
    w: &mut World,
    si: usize,
    model: &BTreeMap<PathBuf, Entry>,
    reference: Outcome,
    prev: Option<&C13State>,
) -> (Option<Violation>, C13State, bool) {
    // registry: key -> (id, kind) of every live file with a tree, from isolated parses
    let mut registered: BTreeMap<String, Vec<(PathBuf, String)>> = BTreeMap::new();
    let mut isos: BTreeMap<PathBuf, Rc<Iso>> = BTreeMap::new();
    for (k, e) in model {
        let iso = w.iso(&e.text);
        if iso.has_tree {
            // Package, name and kind as the generator wrote them, when known: a library that
            // derives another key from an unusual LAYOUT of the same package clause (white space or
            // a comment inside the dotted name) must not thereby change what importers see.
            let (key, kind) = match &e.meta {
                Some(m) => (format!("{}.{}", m.pkg, m.name), m.kind.clone()),
                None => (iso.key.clone(), iso.kind.clone()),
            };
            if key != iso.key || kind != iso.kind {
                w.count("c13_model_key_differs_from_library_key");
            }
            registered.entry(key).or_default().push((k.clone(), kind));
        }
        isos.insert(k.clone(), iso);
    }
    let mut facts: BTreeMap<PathBuf, (String, String)> = BTreeMap::new();
    // kinds registered by *other* files, per import (for the stub project)
    let mut others: BTreeMap<PathBuf, Vec<(String, String)>> = BTreeMap::new();
    let mut some_import_registered = BTreeSet::new();
    for (k, e) in model {
        let iso = &isos[k];
        let mut f = String::new();
        let mut o = Vec::new();
        if iso.has_tree {
            let distinct: BTreeSet<&String> = iso.imports.iter().collect();
            for q in distinct {
                // Note: the SET of kinds registered under the key - the literal reading of C13
                // ("whether an item is registered under that key ... and which kind it has"): how
                // MANY files register it with a kind is not a fact a file's result may depend on.
                let mut kinds: BTreeSet<&str> = BTreeSet::new();
                if let Some(v) = registered.get(q) {
                    for (id, kind) in v {
                        kinds.insert(kind);
                        if id != k {
                            o.push((q.clone(), kind.clone()));
                        }
                    }
                    if v.iter().any(|(id, _)| id != k) {
                        some_import_registered.insert(k.clone());
                    }
                }
                f.push_str(&format!("{q}={kinds:?};"));
            }
        } else {
            f.push_str("<no tree>");
        }
        o.sort();
        o.dedup();
        facts.insert(k.clone(), (e.text.clone(), f));
        others.insert(k.clone(), o);
    }
    let state = C13State {
        facts: facts.clone(),
        reference: reference.clone(),
        live: model.len(),
    };
    let mut nontrivial = false;
    let cur = match &reference {
        Outcome::Ok(m) => m,
        Outcome::Panic(_) => {
            w.count("c13_states_skipped_reference_panicked");
            return (None, state, false);
        }
    };

    // clause "perturbation": equal facts across two observed states => equal result
    if let Some(prev) = prev {
        if let Outcome::Ok(pm) = &prev.reference {
            let mut any_other_change = false;
            for (k, (t, _)) in &facts {
                match prev.facts.get(k) {
                    Some((pt, _)) if pt == t => {}
                    _ => any_other_change = true,
                }
            }
            if prev.facts.len() != facts.len() {
                any_other_change = true;
            }
            for (k, (text, f)) in &facts {
                let (ptext, pf) = match prev.facts.get(k) {
                    Some(x) => x,
                    None => continue,
                };
                if ptext != text {
                    continue;
                }
                let (a, b) = match (pm.get(k), cur.get(k)) {
                    (Some(a), Some(b)) => (a, b),
                    _ => continue,
                };
                if pf == f {
                    if any_other_change {
                        w.count("c13_fact_preserving_pairs");
                        if some_import_registered.iter().any(|o| o != k) || some_import_registered.contains(k) {
                            nontrivial = true;
                        }
                        if prev.live < model.len() {
                            w.count("probe_c13_table_grew_facts_unchanged");
                        } else if prev.live > model.len() {
                            w.count("probe_c13_table_shrank_facts_unchanged");
                        }
                    }
                    if !canon::result_eq(a, b) {
                        let what = if a.ast != b.ast { "tree" } else { "diagnostics" };
                        return (
                            Some(Violation {
                                property: "C13",
                                clause: "perturbation".to_owned(),
                                signature: format!("perturbation:{what}"),
                                detail: format!(
                                    "step {si}: the {what} of {k:?} changed although its text and the registration/kinds of its imports ({f}) are the same before and after; only other files changed"
                                ),
                                left: excerpt_result(Some(a)),
                                right: excerpt_result(Some(b)),
                            }),
                            state,
                            nontrivial,
                        );
                    }
                } else {
                    w.count("c13_fact_changing_pairs");
                    if !canon::result_eq(a, b) {
                        w.count("c13_negative_control_result_changed");
                    }
                }
            }
        }
    }

    // clause "stub": the result equals the one obtained with the rest of the project replaced
    // by empty items of the registered kinds
    // Note: in very large projects only every n-th file gets a stub project per observation
    let stride = (facts.len() + 59) / 60;
    for (idx, (k, (text, f))) in facts.iter().enumerate() {
        if stride > 1 && idx % stride != (si % stride) && isos[k].imports.len() < 100 {
            continue; // (files that import very much are always checked)
        }
        // Note: files without a tree are checked too (their stub project is the file alone)
        let cache_key = (text.clone(), f.clone() + &format!("{:?}", others[k]));
        let expected = match w.stub_cache.get(&cache_key) {
            Some(e) => e.clone(),
            None => {
                let mut files = vec![(PathBuf::from("<self>"), text.clone())];
                for (n, (q, kind)) in others[k].iter().enumerate() {
                    if let Some(t) = stub_text(q, kind) {
                        files.push((PathBuf::from(format!("<stub{n}>")), t));
                    }
                }
                let o = w.fresh(files, alt_policy(w.scn.policy, 11));
                w.count("c13_stub_projects_built");
                let e = match o {
                    Outcome::Ok(mut m) => match m.remove(&PathBuf::from("<self>")) {
                        Some(r) => Rc::new((r.ast, r.diagnostics)),
                        None => continue,
                    },
                    Outcome::Panic(_) => continue,
                };
                w.stub_cache.insert(cache_key, e.clone());
                e
            }
        };
        let got = match cur.get(k) {
            Some(g) => g,
            None => continue,
        };
        w.count("c13_stub_checks");
        if !others[k].is_empty() {
            w.count("c13_stub_checks_with_registered_imports");
        }
        let exp = FileResult {
            id: k.clone(),
            ast: expected.0.clone(),
            diagnostics: expected.1.clone(),
        };
        if got.ast != expected.0 || got.diagnostics != expected.1 || !canon::fields_eq(got, &exp) {
            let what = if got.ast != expected.0 {
                "tree"
            } else if got.diagnostics != expected.1 {
                "diagnostics"
            } else {
                "fields that the library's own == does not compare"
            };
            return (
                Some(Violation {
                    property: "C13",
                    clause: "stub".to_owned(),
                    signature: format!("stub:{what}"),
                    detail: format!(
                        "step {si}: the {what} of {k:?} in the project differs from its {what} when the other files are replaced by empty items with the same keys and kinds ({f}): it depends on more than its own text and the kinds of its imports"
                    ),
                    left: excerpt_result(Some(got)),
                    right: excerpt_result(Some(&exp)),
                }),
                state,
                nontrivial,
            );
        }
    }
    (None, state, nontrivial)
}

// ---------------------------------------------------------------------------------------------
// The working directory (C12): a relative path given to add_file means the file it names NOW
// ---------------------------------------------------------------------------------------------

/// One scripted scenario around `std::env::set_current_dir` (process-global, hence run on its
/// own, never inside the parallel batch): a parser is created in directory A and loads
/// relative paths; the process moves to directory B, where the same relative paths name other
/// files (or none); further loads must read B's files, and a failed load must change nothing.
pub fn run_cwd(seed: u64, variant: u64) -> RunOut {
    use crate::rng::Rng;
    let mut rng = Rng::new(crate::rng::mix3(seed, 0xc3d, variant));
    let mut counters: BTreeMap<String, u64> = BTreeMap::new();
    counters.insert("cwd_scenarios".to_owned(), 1);
    let base = format!(
        "{}/.scratch/{}-cwd-{}",
        std::env::var("VERIF_DIR").unwrap_or_else(|_| "/verif".to_owned()),
        std::process::id(),
        SCRATCH_NONCE.fetch_add(1, Ordering::SeqCst)
    );
    let original = std::env::current_dir().ok();
    let doc = |kind: &str, pkg: &str, name: &str, serial: u64, import: &str| -> String {
        let body = match kind {
            "enum" => format!("SERIAL = {serial},"),
            _ => format!("const int SERIAL = {serial};"),
        };
        format!("package {pkg};\n{import}{kind} {name} {{\n    {body}\n}}\n")
    };
    let rels = ["rel.aidl", "sub/x.aidl", "./rel.aidl", "sub/../rel.aidl"];
    for d in ["A", "A/sub", "B", "B/sub"] {
        let _ = std::fs::create_dir_all(format!("{base}/{d}"));
    }
    // what each directory holds under the relative names
    let mut texts: BTreeMap<(&str, &str), String> = BTreeMap::new();
    texts.insert(("A", "rel.aidl"), doc("parcelable", "p", "Foo", 1, ""));
    texts.insert(("A", "sub/x.aidl"), doc("interface", "p", "IBar", 2, "import p.Foo;\n"));
    texts.insert(("B", "rel.aidl"), doc(*rng.pick(&["enum", "interface", "parcelable"]), "p", "Foo", 3, ""));
    if rng.pct(50) {
        texts.insert(("B", "sub/x.aidl"), doc("interface", "p", "IBar", 4, "import p.Foo;\nimport p.Missing;\n"));
    }
    for ((d, r), t) in &texts {
        let _ = std::fs::write(format!("{base}/{d}/{r}"), t);
    }
    let content_of = |dir: &str, rel: &str| -> Option<String> {
        let slot = disk_slot(rel);
        texts.get(&(dir, slot.as_str())).cloned()
    };
    let mut violation: Option<Violation> = None;
    let mut out = Digest::new();
    let mut model: BTreeMap<PathBuf, String> = BTreeMap::new();
    let mut steps = 0u64;
    let mut dir = "A";
    let _ = std::env::set_current_dir(format!("{base}/A"));
    let mut parser: P = P::new();
    let n_ops = rng.range(3, 8);
    let mut moved = false;
    for i in 0..n_ops {
        steps += 1;
        if !moved && (i >= 1 && rng.pct(50) || i == n_ops - 2) {
            dir = "B";
            let _ = std::env::set_current_dir(format!("{base}/B"));
            moved = true;
            continue;
        }
        let rel = *rng.pick(&rels);
        let r = catch_unwind(AssertUnwindSafe(|| parser.add_file(rel)));
        let expect = content_of(dir, rel);
        match (r, &expect) {
            (Ok(Ok(())), Some(t)) => {
                model.insert(PathBuf::from(rel), t.clone());
            }
            (Ok(Err(_)), None) => {}
            (Ok(res), _) => {
                violation = Some(Violation {
                    property: "C12",
                    clause: "add_file_result".to_owned(),
                    signature: "add_file_result:cwd".to_owned(),
                    detail: format!(
                        "working-directory scenario {variant}, step {i}: add_file({rel:?}) returned {:?} although the file {} in the current directory ({dir}); the parser was created in directory A",
                        res.map_err(|e| e.kind()),
                        if expect.is_some() { "exists" } else { "does not exist" }
                    ),
                    left: String::new(),
                    right: String::new(),
                });
                break;
            }
            (Err(p), _) => {
                violation = Some(Violation {
                    property: "C12",
                    clause: "panic".to_owned(),
                    signature: "panic:add_file:cwd".to_owned(),
                    detail: format!("working-directory scenario {variant}: add_file panicked: {}", exec::panic_message(p)),
                    left: String::new(),
                    right: String::new(),
                });
                break;
            }
        }
        // compare with a fresh parser holding the model
        let got = exec::observe(&parser);
        let mut fresh = P::new();
        for (k, t) in &model {
            let _ = exec::add_content(&mut fresh, k.clone(), t);
        }
        let want = exec::observe(&fresh);
        out.str(&canon::canon_outcome(&got));
        if let Some((file, what)) = canon::first_difference(&want, &got) {
            violation = Some(Violation {
                property: "C12",
                clause: "history".to_owned(),
                signature: format!("history:cwd:{what}"),
                detail: format!(
                    "working-directory scenario {variant}, after step {i} (current directory {dir}, parser created in A): the parser and a fresh parser holding the texts the relative paths name now differ in the {what} of {file}"
                ),
                left: excerpt_outcome(&got, &file),
                right: excerpt_outcome(&want, &file),
            });
            break;
        }
    }
    drop(parser);
    if let Some(o) = original {
        let _ = std::env::set_current_dir(o);
    }
    let _ = std::fs::remove_dir_all(&base);
    RunOut {
        violation,
        gen_digest: crate::rng::mix3(seed, 0xc3d, variant),
        out_digest: out.finish(),
        nontrivial: moved,
        steps,
        executions: 1,
        counters,
        states: Vec::new(),
        transitions: Vec::new(),
    }
}
