//! Batch execution: runs are independent pure functions of (seed, property, index); how they
//! are spread over worker threads cannot influence any of them. Results are collected by index.

use std::sync::atomic::{AtomicBool, AtomicU64, AtomicUsize, Ordering};
use std::sync::Mutex;
use std::time::Instant;

/// Wall-clock limit for one item (a simulated run); exceeding it is a harness error (exit 2),
/// never a violation: hanging is C01's subject, not C11-C13's.
pub const ITEM_WATCHDOG_S: u64 = 300;

/// Panics of the harness itself while working on an item (index, message): a harness error
pub static HARNESS_PANICS: Mutex<Vec<(usize, String)>> = Mutex::new(Vec::new());

/// Run `f(i)` for i in 0..n on `threads` workers. `is_failure` marks results after which no
/// *later* index needs to run (all earlier indices still complete, so the smallest failing
/// index is found deterministically). Returns results for a prefix-closed set of indices.
pub fn run_indexed<R: Send, F: Fn(usize) -> R + Sync, G: Fn(&R) -> bool + Sync>(
    n: usize,
    threads: usize,
    f: F,
    is_failure: G,
) -> Vec<Option<R>> {
    let next = AtomicUsize::new(0);
    let stop_at = AtomicUsize::new(n);
    let slots: Vec<Mutex<Option<R>>> = (0..n).map(|_| Mutex::new(None)).collect();
    let t0 = Instant::now();
    // per worker: (item index + 1, start in ms since t0); 0 = idle
    let current: Vec<(AtomicUsize, AtomicU64)> =
        (0..threads.max(1)).map(|_| (AtomicUsize::new(0), AtomicU64::new(0))).collect();
    let done = AtomicBool::new(false);
    std::thread::scope(|s| {
        let mut monitor = None;
        {
            let current = &current;
            let done = &done;
            monitor = Some(s.spawn(move || {
                while !done.load(Ordering::SeqCst) {
                    std::thread::park_timeout(std::time::Duration::from_millis(500));
                    let now = t0.elapsed().as_millis() as u64;
                    for (i, st) in current {
                        let item = i.load(Ordering::SeqCst);
                        if item > 0 && now.saturating_sub(st.load(Ordering::SeqCst)) > ITEM_WATCHDOG_S * 1000 {
                            eprintln!(
                                "HARNESS ERROR: item {} did not finish within {ITEM_WATCHDOG_S}s (a hang is not a verdict on this property)",
                                item - 1
                            );
                            std::process::exit(2);
                        }
                    }
                }
            }));
        }
        let mut workers = Vec::new();
        for w in 0..threads.max(1) {
            let next = &next;
            let stop_at = &stop_at;
            let slots = &slots;
            let f = &f;
            let is_failure = &is_failure;
            let cur = &current[w];
            let h = std::thread::Builder::new()
                .name(format!("worker-{w}"))
                .stack_size(16 << 20)
                .spawn_scoped(s, move || loop {
                    let i = next.fetch_add(1, Ordering::SeqCst);
                    if i >= n || i > stop_at.load(Ordering::SeqCst) {
                        break;
                    }
                    cur.1.store(t0.elapsed().as_millis() as u64, Ordering::SeqCst);
                    cur.0.store(i + 1, Ordering::SeqCst);
                    let r = match std::panic::catch_unwind(std::panic::AssertUnwindSafe(|| f(i))) {
                        Ok(r) => r,
                        Err(p) => {
                            let msg = if let Some(s) = p.downcast_ref::<&str>() {
                                (*s).to_owned()
                            } else if let Some(s) = p.downcast_ref::<String>() {
                                s.clone()
                            } else {
                                "<non-string panic>".to_owned()
                            };
                            HARNESS_PANICS.lock().unwrap().push((i, msg));
                            cur.0.store(0, Ordering::SeqCst);
                            continue;
                        }
                    };
                    cur.0.store(0, Ordering::SeqCst);
                    if is_failure(&r) {
                        stop_at.fetch_min(i, Ordering::SeqCst);
                    }
                    *slots[i].lock().unwrap() = Some(r);
                })
                .expect("spawn worker");
            workers.push(h);
        }
        for h in workers {
            let _ = h.join();
        }
        done.store(true, Ordering::SeqCst);
        if let Some(m) = monitor.take() {
            m.thread().unpark();
        }
    });
    slots.into_iter().map(|m| m.into_inner().unwrap()).collect()
}

/// Evaluate `pred` on all items in parallel; index of the first item (lowest index) for which
/// it holds. Deterministic regardless of thread timing.
pub fn first_match<T: Sync, F: Fn(&T) -> bool + Sync>(items: &[T], threads: usize, pred: F) -> Option<usize> {
    let res = run_indexed(items.len(), threads, |i| pred(&items[i]), |r| *r);
    res.iter().position(|r| matches!(r, Some(true)))
}
