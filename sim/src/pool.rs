//! Batch execution: runs are independent pure functions of (seed, property, index); how they
//! are spread over worker threads cannot influence any of them. Results are collected by index.

use std::sync::atomic::{AtomicUsize, Ordering};
use std::sync::Mutex;

/// Run `f(i)` for i in 0..n on `threads` workers. `is_failure` marks results after which no
/// *later* index needs to run (all earlier indices still complete, so the smallest failing
/// index is found deterministically). Returns results for a prefix-closed set of indices.
pub fn run_indexed<R: Send, F: Fn(usize) -> R + Sync, G: Fn(&R) -> bool + Sync>(
    n: usize,
    threads: usize,
    f: F,
    is_failure: G,
) -> Vec<Option<R>> {
    let next = AtomicUsize::new(0);
    let stop_at = AtomicUsize::new(n);
    let slots: Vec<Mutex<Option<R>>> = (0..n).map(|_| Mutex::new(None)).collect();
    std::thread::scope(|s| {
        for w in 0..threads.max(1) {
            let next = &next;
            let stop_at = &stop_at;
            let slots = &slots;
            let f = &f;
            let is_failure = &is_failure;
            std::thread::Builder::new()
                .name(format!("worker-{w}"))
                .stack_size(16 << 20)
                .spawn_scoped(s, move || loop {
                    let i = next.fetch_add(1, Ordering::SeqCst);
                    if i >= n || i > stop_at.load(Ordering::SeqCst) {
                        break;
                    }
                    let r = f(i);
                    if is_failure(&r) {
                        stop_at.fetch_min(i, Ordering::SeqCst);
                    }
                    *slots[i].lock().unwrap() = Some(r);
                })
                .expect("spawn worker");
        }
    });
    slots.into_iter().map(|m| m.into_inner().unwrap()).collect()
}

/// Evaluate `pred` on all items in parallel; index of the first item (lowest index) for which
/// it holds. Deterministic regardless of thread timing.
pub fn first_match<T: Sync, F: Fn(&T) -> bool + Sync>(items: &[T], threads: usize, pred: F) -> Option<usize> {
    let res = run_indexed(items.len(), threads, |i| pred(&items[i]), |r| *r);
    res.iter().position(|r| matches!(r, Some(true)))
}
