//! Greedy minimisation: repeatedly replace the scenario by the first (lowest-index) candidate
//! that still violates the *same oracle clause*. Candidates of one round are evaluated in
//! parallel; taking the lowest index keeps the result independent of thread timing.

use crate::pool;
use crate::scenario::Violation;
use crate::scn::{self, Prop, Scn};
use std::time::Instant;

#[derive(Default, Clone)]
pub struct MinStats {
    pub tried: usize,
    pub rounds: usize,
}

fn still_fails(prop: Prop, s: &Scn, clause: &str) -> Option<Violation> {
    // `uncontrolled` violations are not a function of the scenario alone: give them a few tries
    let attempts = if clause == "uncontrolled" { 8 } else { 1 };
    for _ in 0..attempts {
        if let Some(v) = scn::run(prop, s).violation {
            if v.clause == clause {
                return Some(v);
            }
        }
    }
    None
}

pub fn minimise(prop: Prop, s: &Scn, v: &Violation, threads: usize, budget_s: f64) -> (Scn, Violation, MinStats) {
    let t0 = Instant::now();
    let mut cur = s.clone();
    let mut cur_v = v.clone();
    let mut stats = MinStats::default();
    // Candidates are listed in a fixed order (big cuts first). After accepting candidate i the
    // next round resumes scanning at i: everything before it was just rejected on an almost
    // identical scenario; the skipped prefix is re-tried once nothing else works.
    let mut resume_at = 0usize;
    loop {
        if t0.elapsed().as_secs_f64() > budget_s || stats.rounds > 5000 {
            break;
        }
        let (cands, content_start) = scn::shrink_candidates(&cur);
        if cands.is_empty() {
            break;
        }
        stats.rounds += 1;
        let n = cands.len();
        let start = resume_at.min(n);
        // scan order: start..n, then 0..start
        let order: Vec<usize> = (start..n).chain(0..start).collect();
        let mut accepted = None;
        let window = (threads * 2).max(8);
        let mut pos = 0;
        while pos < order.len() && accepted.is_none() {
            let end = (pos + window).min(order.len());
            let slice: Vec<&Scn> = order[pos..end].iter().map(|i| &cands[*i]).collect();
            stats.tried += slice.len();
            let clause = cur_v.clause.clone();
            if let Some(i) = pool::first_match(&slice, threads, |c| still_fails(prop, c, &clause).is_some()) {
                accepted = Some(order[pos + i]);
            }
            pos = end;
            if t0.elapsed().as_secs_f64() > budget_s {
                break;
            }
        }
        match accepted {
            Some(i) => {
                if let Some(nv) = still_fails(prop, &cands[i], &cur_v.clause) {
                    cur = cands[i].clone();
                    cur_v = nv;
                    // structural cuts change the candidate list: start over; content shrinking resumes
                    resume_at = if i >= content_start { i } else { 0 };
                } else {
                    // flaky candidate (only possible when the violation is not a function of the scenario)
                    break;
                }
            }
            None => break, // the scan covered every candidate
        }
    }
    (cur, cur_v, stats)
}
