//! Greedy minimisation: repeatedly replace the scenario by the first (lowest-index) candidate
//! that still violates the *same oracle clause*. Candidates of one round are evaluated in
//! parallel; taking the lowest index keeps the result independent of thread timing.

use crate::pool;
use crate::scenario::Violation;
use crate::scn::{self, Prop, Scn};
use std::time::Instant;

#[derive(Default, Clone)]
pub struct MinStats {
    pub tried: usize,
    pub rounds: usize,
}

fn still_fails(prop: Prop, s: &Scn, clause: &str) -> Option<Violation> {
    // `uncontrolled` violations are not a function of the scenario alone: give them a few tries
    let attempts = if clause == "uncontrolled" { 8 } else { 1 };
    for _ in 0..attempts {
        if let Some(v) = scn::run(prop, s).violation {
            if v.clause == clause {
                return Some(v);
            }
        }
    }
    None
}

pub fn minimise(prop: Prop, s: &Scn, v: &Violation, threads: usize, budget_s: f64) -> (Scn, Violation, MinStats) {
    let t0 = Instant::now();
    let mut cur = s.clone();
    let mut cur_v = v.clone();
    let mut stats = MinStats::default();
    loop {
        if t0.elapsed().as_secs_f64() > budget_s || stats.rounds > 400 {
            break;
        }
        let cands = scn::shrink_candidates(&cur);
        if cands.is_empty() {
            break;
        }
        stats.rounds += 1;
        // evaluate in windows so that an early hit does not pay for the whole list
        let mut accepted = None;
        let window = (threads * 2).max(8);
        let mut start = 0;
        while start < cands.len() && accepted.is_none() {
            let end = (start + window).min(cands.len());
            let slice = &cands[start..end];
            stats.tried += slice.len();
            let clause = cur_v.clause.clone();
            if let Some(i) = pool::first_match(slice, threads, |c| still_fails(prop, c, &clause).is_some()) {
                accepted = Some(start + i);
            }
            start = end;
            if t0.elapsed().as_secs_f64() > budget_s {
                break;
            }
        }
        match accepted {
            Some(i) => {
                if let Some(nv) = still_fails(prop, &cands[i], &cur_v.clause) {
                    cur = cands[i].clone();
                    cur_v = nv;
                } else {
                    // flaky candidate (only possible for `uncontrolled`): stop here
                    break;
                }
            }
            None => break,
        }
    }
    (cur, cur_v, stats)
}
