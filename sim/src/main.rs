//! Deterministic simulation with fault injection for bwalter/rust-aidl-parser.
//!
//!   sim check <C11|C12|C13> <quick|thorough>   run a batch, write evidence, exit 0 / 1 / 2
//!   sim digests <prop> <tier> <seed> <from> <to> <threads>   per-run digests (determinism self-check)
//!   sim replay <file>                          re-execute a replay file (exit 1 if it reproduces)
//!   sim show <prop> <tier> <seed> <run>        print the generated scenario of one run

mod c11;
mod canon;
mod coarse;
mod exec;
mod findings;
mod gen;
mod hist;
mod hist_run;
mod json;
mod minimize;
mod pool;
mod rng;
mod scenario;
mod scn;

use json::J;
use scn::{Prop, Scn};
use std::collections::{BTreeMap, BTreeSet};
use std::process::Command;
use std::time::Instant;

pub fn verif_dir() -> String {
    std::env::var("VERIF_DIR").unwrap_or_else(|_| "/verif".to_owned())
}

fn env_u64(name: &str) -> Option<u64> {
    std::env::var(name).ok().and_then(|v| v.trim().parse().ok())
}

fn threads() -> usize {
    env_u64("VERIF_THREADS")
        .map(|v| v as usize)
        .unwrap_or_else(|| std::thread::available_parallelism().map(|n| n.get()).unwrap_or(4))
        .max(1)
}

fn budget(prop: Prop, thorough: bool) -> usize {
    if let Some(n) = env_u64("VERIF_RUNS") {
        return n as usize;
    }
    match (prop, thorough) {
        (Prop::C11, false) => 4000,
        (Prop::C12, false) => 4000,
        (Prop::C13, false) => 4000,
        (Prop::C11, true) => 200_000,
        (Prop::C12, true) => 100_000,
        (Prop::C13, true) => 100_000,
    }
}

fn main() {
    exec::silence_panics();
    if !hist_run::probe_disk_seam() {
        println!("NOTE: Parser::add_file does not consult the disk seam (H2) any more: every load uses real files in a scratch directory (pass-through); read errors in the middle of a file cannot be injected");
        hist_run::FORCE_PASSTHROUGH.store(true, std::sync::atomic::Ordering::SeqCst);
    }
    let args: Vec<String> = std::env::args().collect();
    let code = match args.get(1).map(|s| s.as_str()) {
        Some("check") if args.len() >= 4 => cmd_check(&args[2], &args[3]),
        Some("digests") if args.len() >= 8 => cmd_digests(&args[2..]),
        Some("replay") if args.len() >= 3 => cmd_replay(&args[2]),
        Some("show") if args.len() >= 6 => cmd_show(&args[2..]),
        Some("dict") => {
            // the dictionary of the current /repo/src, one word per line (-> sim/baseline_dict.txt)
            for w in gen::harvested_at_words().iter().chain(gen::harvested_idents().iter()) {
                println!("{w}");
            }
            for t in gen::grammar_tokens_tagged() {
                println!("{t}");
            }
            0
        }
        _ => {
            eprintln!("usage: sim check <C11|C12|C13> <quick|thorough> | sim replay <file> | sim show <prop> <tier> <seed> <run> | sim digests <prop> <tier> <seed> <from> <to> <threads>");
            2
        }
    };
    std::process::exit(code);
}

fn parse_tier(s: &str) -> Option<bool> {
    match s {
        "quick" => Some(false),
        "thorough" => Some(true),
        _ => None,
    }
}

fn cmd_show(a: &[String]) -> i32 {
    let (prop, thorough) = match (Prop::parse(&a[0]), parse_tier(&a[1])) {
        (Some(p), Some(t)) => (p, t),
        _ => return 2,
    };
    let seed: u64 = a[2].parse().unwrap_or(1);
    let run: usize = a[3].parse().unwrap_or(0);
    let (s, desc) = scn::generate(seed, prop, run, thorough);
    println!("# knobs: {desc}");
    println!("# harvested @words: {:?}", gen::harvested_at_words());
    println!("# harvested identifiers: {}", gen::harvested_idents().len());
    println!("# novel words (not in baseline_dict.txt): {:?}", gen::novel_words());
    println!("# novel grammar tokens: {:?}", gen::novel_tokens());
    println!("{}", scn::to_json(&s).to_string_pretty());
    let r = scn::run(prop, &s);
    println!("# gen_digest={:016x} out_digest={:016x} nontrivial={}", r.gen_digest, r.out_digest, r.nontrivial);
    for (k, v) in &r.counters {
        println!("# {k}={v}");
    }
    if let Some(v) = r.violation {
        println!("# VIOLATION clause={} {}", v.clause, v.detail);
        println!("# left:\n{}", v.left);
        println!("# right:\n{}", v.right);
    }
    0
}

fn cmd_digests(a: &[String]) -> i32 {
    let (prop, thorough) = match (Prop::parse(&a[0]), parse_tier(&a[1])) {
        (Some(p), Some(t)) => (p, t),
        _ => return 2,
    };
    let seed: u64 = a[2].parse().unwrap_or(1);
    let from: usize = a[3].parse().unwrap_or(0);
    let to: usize = a[4].parse().unwrap_or(0);
    let th: usize = a[5].parse().unwrap_or(1);
    // Give this process a past of its own before it runs anything: lazily initialised
    // process-wide state (a static table, an interner, a cache) then starts from another
    // first use than in the parent, and shows up as an output mismatch between processes.
    let salt: u64 = a.get(6).and_then(|s| s.parse().ok()).unwrap_or(0);
    if salt != 0 {
        for j in 0..12usize {
            let (s, _) = scn::generate(rng::mix2(seed, salt), Prop::C12, j, false);
            let _ = scn::run(Prop::C12, &s);
            let (s, _) = scn::generate(rng::mix2(seed, salt), Prop::C13, j, false);
            let _ = scn::run(Prop::C13, &s);
        }
    }
    let res = pool::run_indexed(
        to.saturating_sub(from),
        th,
        |i| {
            let (s, _) = scn::generate(seed, prop, from + i, thorough);
            let r = scn::run(prop, &s);
            (r.gen_digest, r.out_digest, r.violation.is_some())
        },
        |_| false,
    );
    for (i, r) in res.iter().enumerate() {
        if let Some((g, o, v)) = r {
            println!("{} {:016x} {:016x} {}", from + i, g, o, u8::from(*v));
        }
    }
    0
}

struct Found {
    run: usize,
    scenario: Scn,
    violation: scenario::Violation,
    desc: String,
}

fn write_replay(
    prop: Prop,
    seed: u64,
    tier: &str,
    found: &Found,
    minimised: &Scn,
    v: &scenario::Violation,
    stats: &minimize::MinStats,
) -> Result<String, String> {
    let dir = format!("{}/replays/{}", verif_dir(), prop.id());
    std::fs::create_dir_all(&dir).map_err(|e| format!("{dir}: {e}"))?;
    let path = format!("{dir}/seed{}-run{}.json", seed, found.run);
    let (s0, b0) = scn::size(&found.scenario);
    let (s1, b1) = scn::size(minimised);
    let j = J::obj()
        .set("format", J::s("aidl-sim replay v1"))
        .set("property", J::s(prop.id()))
        .set("seed", J::u_str(seed))
        .set("tier", J::s(tier))
        .set("run", J::u(found.run as u64))
        .set("knobs", J::s(found.desc.clone()))
        .set("clause", J::s(v.clause.clone()))
        .set("signature", J::s(v.signature.clone()))
        .set("detail", J::s(v.detail.clone()))
        .set("left", J::s(v.left.clone()))
        .set("right", J::s(v.right.clone()))
        .set(
            "minimisation",
            J::obj()
                .set("steps_before", J::u(s0 as u64))
                .set("steps_after", J::u(s1 as u64))
                .set("content_bytes_before", J::u(b0 as u64))
                .set("content_bytes_after", J::u(b1 as u64))
                .set("candidates_tried", J::u(stats.tried as u64))
                .set("rounds", J::u(stats.rounds as u64)),
        )
        .set("scenario", scn::to_json(minimised))
        .set("how_to_replay", J::s(format!("{}/check.sh replay {path}", verif_dir())));
    std::fs::write(&path, j.to_string_pretty()).map_err(|e| format!("{path}: {e}"))?;
    Ok(path)
}

/// Re-execute a replay file. Exit 1 if the recorded clause fails again, 0 if not, 2 on error.
fn cmd_replay(path: &str) -> i32 {
    let text = match std::fs::read_to_string(path) {
        Ok(t) => t,
        Err(e) => {
            eprintln!("replay: {path}: {e}");
            return 2;
        }
    };
    let j = match json::parse(&text) {
        Ok(j) => j,
        Err(e) => {
            eprintln!("replay: {path}: {e}");
            return 2;
        }
    };
    let prop = match j.get("property").and_then(|p| p.as_str()).and_then(Prop::parse) {
        Some(p) => p,
        None => {
            eprintln!("replay: property missing");
            return 2;
        }
    };
    let clause = j.get("clause").and_then(|c| c.as_str()).unwrap_or("").to_owned();
    let s = match j.get("scenario").ok_or("scenario missing".to_owned()).and_then(scn::from_json) {
        Ok(s) => s,
        Err(e) => {
            eprintln!("replay: {e}");
            return 2;
        }
    };
    // A violation of the `uncontrolled` clause is, by its nature, not a function of the seed:
    // give it several fresh sets of threads.
    // A violation that is a function of the scenario reproduces at the first attempt; one that
    // depends on state outside the seams (real RandomState, addresses, ...) gets more attempts.
    let attempts = 64;
    for attempt in 0..attempts {
        let r = scn::run(prop, &s);
        if let Some(v) = r.violation {
            if v.clause == clause || clause.is_empty() {
                println!(
                    "REPRODUCED property={} clause={} attempt={} signature={}",
                    prop.id(),
                    v.clause,
                    attempt,
                    v.signature
                );
                println!("{}", v.detail);
                println!("--- left\n{}--- right\n{}", v.left, v.right);
                return 1;
            } else {
                println!(
                    "replay: a different clause failed: {} ({}), recorded clause: {clause}",
                    v.clause, v.detail
                );
            }
        }
    }
    println!("NOT REPRODUCED property={} clause={clause}", prop.id());
    0
}

fn seam_audit() -> (Vec<String>, J) {
    // Inventory of DESIGN.md section 1: anything else in /repo/src that could carry
    // nondeterminism or state across calls is reported (never changes the exit code).
    let patterns: [(&str, &[&str]); 12] = [
        ("static ", &[]),
        ("thread_local!", &["verif.rs"]),
        ("RefCell", &["verif.rs"]),
        ("Cell<", &["verif.rs"]),
        ("Mutex", &[]),
        ("RwLock", &[]),
        ("Atomic", &[]),
        ("OnceCell", &[]),
        ("OnceLock", &[]),
        ("lazy_static", &[]),
        ("RandomState", &[]),
        ("std::collections::Hash", &[]),
    ];
    let extra: [(&str, &[&str]); 7] = [
        ("SystemTime", &[]),
        ("Instant", &[]),
        ("std::env", &[]),
        ("std::fs", &["parser.rs", "verif.rs"]),
        ("thread::", &[]),
        ("std::process", &[]),
        ("as *const", &[]),
    ];
    let mut notes = Vec::new();
    let mut files = 0;
    if let Ok(rd) = std::fs::read_dir("/repo/src") {
        let mut names: Vec<_> = rd.flatten().map(|e| e.path()).collect();
        names.sort();
        for p in names {
            let name = p.file_name().unwrap().to_string_lossy().to_string();
            if !(name.ends_with(".rs") || name.ends_with(".lalrpop")) || name == "verif.rs" {
                continue; // verif.rs is the seam module itself (compiled only under the guard)
            }
            files += 1;
            let text = std::fs::read_to_string(&p).unwrap_or_default();
            for (ln, line) in text.lines().enumerate() {
                let t = line.trim_start();
                if t.starts_with("//") {
                    continue;
                }
                for (pat, allowed) in patterns.iter().chain(extra.iter()) {
                    if line.contains(pat) && !allowed.contains(&name.as_str()) {
                        // known, hooked or harmless sites
                        if *pat == "static " && (line.contains("&'static") || line.contains("'static str")) {
                            continue;
                        }
                        if name == "ast.rs" && *pat == "std::collections::Hash" && line.contains("use std::collections::HashMap;") {
                            continue; // Annotation.key_values: never iterated by the library
                        }
                        if (name == "parser.rs" || name == "validation.rs")
                            && *pat == "std::collections::Hash"
                            && line.trim_start().starts_with("use std::collections::")
                        {
                            continue; // the cfg(not(verif-hooks)) twin of the hooked import
                        }
                        notes.push(format!("{name}:{}: `{pat}`: {}", ln + 1, line.trim()));
                    }
                }
            }
        }
    }
    let j = J::obj()
        .set("files_scanned", J::u(files))
        .set("unexpected_sites", scenario::jstr_arr(&notes));
    (notes, j)
}

fn selfcheck(prop: Prop, tier: &str, seed: u64, n: usize, n_wide: usize, mine: &[(u64, u64)]) -> Result<(J, Option<usize>), String> {
    // The same runs in two other processes with other worker counts must give the same digests.
    let exe = std::env::current_exe().map_err(|e| e.to_string())?;
    let mut mismatch_out: Option<usize> = None;
    let mut compared = 0usize;
    // child 1: another worker count on the first n runs; child 2: more runs (what differs
    // between processes may need a rare input to show)
    // (worker threads, runs, salt of the child's own past); the thorough tier asks more processes
    let mut plan: Vec<(usize, usize, u64)> = vec![(3, n, 3), (16, n_wide.max(n), 16)];
    if tier == "thorough" {
        plan.push((16, (n_wide / 4).max(n), 5));
        plan.push((8, (n_wide / 4).max(n), 7));
    } else if prop == Prop::C11 {
        // Process-wide lazily initialised state is a coin flip per process (seeded change
        // c11p): two more processes with pasts of their own, all children side by side.
        plan.push((8, (n_wide * 2 / 3).max(n), 5));
        plan.push((8, (n_wide * 2 / 3).max(n), 7));
    }
    let n_children = plan.len();
    let mut children = Vec::new();
    for (th, n, salt) in plan {
        let child = Command::new(&exe)
            .args(["digests", prop.id(), tier, &seed.to_string(), "0", &n.to_string(), &th.to_string(), &salt.to_string()])
            .stdin(std::process::Stdio::null())
            .stdout(std::process::Stdio::piped())
            .stderr(std::process::Stdio::piped())
            .spawn()
            .map_err(|e| format!("selfcheck: cannot run child: {e}"))?;
        children.push((th, n, child));
    }
    for (th, n, child) in children {
        let out = child
            .wait_with_output()
            .map_err(|e| format!("selfcheck: cannot run child: {e}"))?;
        if !out.status.success() {
            return Err(format!("selfcheck: child failed: {}", String::from_utf8_lossy(&out.stderr)));
        }
        let text = String::from_utf8_lossy(&out.stdout);
        let mut seen = 0;
        for line in text.lines() {
            let f: Vec<&str> = line.split_whitespace().collect();
            if f.len() < 3 {
                continue;
            }
            let i: usize = match f[0].parse() {
                Ok(i) => i,
                Err(_) => continue, // a NOTE line
            };
            let g = u64::from_str_radix(f[1], 16).map_err(|_| "selfcheck: bad digest")?;
            let o = u64::from_str_radix(f[2], 16).map_err(|_| "selfcheck: bad digest")?;
            if i >= mine.len() {
                continue;
            }
            seen += 1;
            if g != mine[i].0 {
                return Err(format!(
                    "selfcheck: run {i} was GENERATED differently in another process ({:016x} vs {g:016x}): the simulator itself is not deterministic",
                    mine[i].0
                ));
            }
            if o != mine[i].1 && mismatch_out.is_none() {
                mismatch_out = Some(i);
            }
        }
        if seen < n.min(mine.len()) {
            return Err(format!("selfcheck: child reported {seen} of {n} runs"));
        }
        let _ = th;
        compared += seen;
    }
    let j = J::obj()
        .set("runs_compared_across_processes", J::u(n_wide.max(n).min(mine.len()) as u64))
        .set("process_worker_counts", J::Arr(vec![J::u(threads() as u64), J::u(3), J::u(16)]))
        .set("child_processes", J::u(n_children as u64))
        .set("child_process_pasts", J::s("every child first executes 24 unrelated history runs of its own (salted seed), so that lazily initialised process-wide state starts from another first use than in the parent"))
        .set("digest_comparisons", J::u(compared as u64))
        .set("output_mismatch_at_run", match mismatch_out {
            Some(i) => J::u(i as u64),
            None => J::Null,
        })
        .set("result", J::s(if mismatch_out.is_none() { "identical" } else { "library output differs between processes" }));
    Ok((j, mismatch_out))
}

fn cmd_check(prop_s: &str, tier: &str) -> i32 {
    let (prop, thorough) = match (Prop::parse(prop_s), parse_tier(tier)) {
        (Some(p), Some(t)) => (p, t),
        _ => {
            eprintln!("check: unknown property or tier");
            return 2;
        }
    };
    let seed = env_u64("VERIF_SEED").unwrap_or(1);
    let n = budget(prop, thorough);
    let th = threads();
    println!("VERIF_SEED={seed} property={} tier={tier} runs={n} threads={th}", prop.id());
    let known = match findings::load(&verif_dir()) {
        Ok(k) => k,
        Err(e) => {
            eprintln!("check: {e}");
            return 2;
        }
    };
    let (audit_notes, audit_json) = seam_audit();
    for nline in &audit_notes {
        println!("NOTE: seam audit: {nline}");
    }
    let cap_s = env_u64("VERIF_WALL_CAP_S").unwrap_or(if thorough { 6 * 3600 } else { 1500 });
    let t0 = Instant::now();

    // ------------------------------------------------------------------ batch
    struct Summary {
        out: scn::RunOut,
        desc: String,
        capped: bool,
    }
    let known_ref = &known;
    let results = pool::run_indexed(
        n,
        th,
        |i| {
            if t0.elapsed().as_secs() > cap_s {
                return Summary {
                    out: scn::RunOut {
                        violation: None,
                        gen_digest: 0,
                        out_digest: 0,
                        nontrivial: false,
                        steps: 0,
                        executions: 0,
                        counters: BTreeMap::new(),
                        states: vec![],
                        transitions: vec![],
                    },
                    desc: String::new(),
                    capped: true,
                };
            }
            let (s, desc) = scn::generate(seed, prop, i, thorough);
            let t_run = Instant::now();
            let out = scn::run(prop, &s);
            if let Some(limit) = env_u64("VERIF_SLOW_S") {
                let el = t_run.elapsed().as_secs_f64();
                if el > limit as f64 {
                    eprintln!("slow run {i}: {el:.1}s knobs: {}", &desc[..desc.len().min(160)]);
                }
            }
            Summary { out, desc, capped: false }
        },
        |r| match &r.out.violation {
            Some(v) => findings::matches(known_ref, v.property, &v.signature).is_none(),
            None => false,
        },
    );
    let batch_wall = t0.elapsed().as_secs_f64();
    {
        let panics = pool::HARNESS_PANICS.lock().unwrap();
        if !panics.is_empty() {
            for (i, m) in panics.iter().take(5) {
                eprintln!("HARNESS ERROR: the simulator itself panicked in run {i}: {m}");
            }
            return 2;
        }
    }

    // ------------------------------------------------------------------ aggregate
    let mut evaluations = 0u64;
    let mut capped = 0u64;
    let mut steps = 0u64;
    let mut executions = 0u64;
    let mut counters: BTreeMap<String, u64> = BTreeMap::new();
    let mut nontrivial: BTreeSet<u64> = BTreeSet::new();
    let mut distinct_all: BTreeSet<u64> = BTreeSet::new();
    let mut states: BTreeSet<u64> = BTreeSet::new();
    let mut transitions: BTreeSet<u64> = BTreeSet::new();
    let mut digests: Vec<(u64, u64)> = Vec::new();
    let mut prefix_complete = true;
    let mut first_violation: Option<usize> = None;
    let mut known_hits: BTreeMap<String, (usize, String)> = BTreeMap::new();
    for (i, r) in results.iter().enumerate() {
        match r {
            Some(sm) if !sm.capped => {
                evaluations += 1;
                steps += sm.out.steps;
                executions += sm.out.executions;
                for (k, v) in &sm.out.counters {
                    if k.starts_with("max_") {
                        let e = counters.entry(k.clone()).or_default();
                        *e = (*e).max(*v);
                    } else {
                        *counters.entry(k.clone()).or_default() += v;
                    }
                }
                distinct_all.insert(sm.out.gen_digest);
                if sm.out.nontrivial {
                    nontrivial.insert(sm.out.gen_digest);
                }
                states.extend(sm.out.states.iter().copied());
                transitions.extend(sm.out.transitions.iter().copied());
                if prefix_complete {
                    digests.push((sm.out.gen_digest, sm.out.out_digest));
                }
                if let Some(v) = &sm.out.violation {
                    match findings::matches(&known, v.property, &v.signature) {
                        Some(f) => {
                            known_hits.entry(f.signature.clone()).or_insert((i, f.what.clone()));
                        }
                        None => {
                            if first_violation.is_none() {
                                first_violation = Some(i);
                            }
                        }
                    }
                }
            }
            Some(_) => {
                capped += 1;
                prefix_complete = false;
            }
            None => prefix_complete = false,
        }
    }
    let debug_only = c11::DEBUG_ONLY_DIFFERENCES.load(std::sync::atomic::Ordering::Relaxed);
    if debug_only > 0 {
        println!("NOTE: {debug_only} repeated validations of one parser returned results that are equal (==) but print differently through Debug (iteration order of a hash container inside the tree); C11 is decided by the library's own equality, so this is not reported as a violation");
        counters.insert("debug_only_differences_between_repeated_validations".to_owned(), debug_only);
    }
    {
        let n: u64 = counters.iter().filter(|(k, _)| k.starts_with("note_id_")).map(|(_, v)| *v).sum();
        if n > 0 {
            println!("NOTE: in {n} observations a result was tagged with an id that is equal (==) to, but not the same spelling / object as, the id given by the call that stored its latest content; C12 is decided by the id type's own equality, so this is not reported as a violation");
        }
    }
    if capped > 0 {
        println!("NOTE: wall-clock cap of {cap_s}s reached; {capped} runs were not executed (reported in evidence)");
    }

    // ------------------------------------------------------------------ working-directory scenarios
    // (C12 only; chdir is process-global, so these run here, alone, after the parallel batch)
    let mut cwd_found: Option<(usize, Scn, scenario::Violation)> = None;
    if prop == Prop::C12 {
        let k = if thorough { 200u64 } else { 24 };
        for variant in 0..k {
            let s = Scn::Cwd { seed, variant };
            let out = scn::run(prop, &s);
            evaluations += 1;
            steps += out.steps;
            for (kk, v) in &out.counters {
                *counters.entry(kk.clone()).or_default() += v;
            }
            distinct_all.insert(out.gen_digest);
            if out.nontrivial {
                nontrivial.insert(out.gen_digest);
            }
            if let Some(v) = out.violation {
                if findings::matches(&known, v.property, &v.signature).is_none() && cwd_found.is_none() {
                    cwd_found = Some((n + variant as usize, s, v));
                }
            }
        }
    }

    // ------------------------------------------------------------------ samples
    let mut samples = Vec::new();
    for i in 0..3usize.min(n) {
        let (s, desc) = scn::generate(seed, prop, i, thorough);
        samples.push(
            J::obj()
                .set("run", J::u(i as u64))
                .set("run_seed", J::u_str(scn::run_seed(seed, prop, i)))
                .set("knobs", J::s(desc))
                .set("scenario", scn::to_json(&s)),
        );
    }

    // ------------------------------------------------------------------ determinism self-check
    let sc_n = if first_violation.is_some() || cwd_found.is_some() {
        0
    } else {
        (env_u64("VERIF_SELFCHECK_RUNS").map(|v| v as usize).unwrap_or(if thorough { 3000 } else { 300 })).min(digests.len())
    };
    let mut selfcheck_json = J::obj().set("result", J::s("skipped (a violation was found first)"));
    let mut cross_process: Option<usize> = None;
    if sc_n > 0 {
        let sc_wide = (if thorough { 20_000 } else { 1_500 }).min(digests.len());
        match selfcheck(prop, tier, seed, sc_n, sc_wide, &digests[..sc_wide.max(sc_n)]) {
            Ok((j, m)) => {
                selfcheck_json = j;
                cross_process = m;
            }
            Err(e) => {
                eprintln!("HARNESS ERROR: {e}");
                return 2;
            }
        }
    }

    // ------------------------------------------------------------------ violation handling
    let mut exit = 0;
    let mut violations = 0;
    let mut violation_json = J::Null;
    let mut found: Option<Found> = None;
    if let Some(i) = first_violation {
        let (s, desc) = scn::generate(seed, prop, i, thorough);
        let v = results[i].as_ref().unwrap().out.violation.clone().unwrap();
        found = Some(Found { run: i, scenario: s, violation: v, desc });
    } else if let Some((i, s, v)) = cwd_found {
        found = Some(Found { run: i, scenario: s, violation: v, desc: "scripted working-directory scenario".to_owned() });
    } else if let Some(i) = cross_process {
        if prop == Prop::C11 {
            // Identical scenario and configuration, different process, different output:
            // the output is not a function of the (id, content) pairs.
            let (s, desc) = scn::generate(seed, prop, i, thorough);
            found = Some(Found {
                run: i,
                scenario: s,
                violation: scenario::Violation {
                    property: "C11",
                    clause: "uncontrolled".to_owned(),
                    signature: "uncontrolled:process".to_owned(),
                    detail: format!("run {i} produced different library output in another process although every seam-controlled input was identical"),
                    left: String::new(),
                    right: String::new(),
                },
                desc,
            });
        } else {
            // Not this property's business: output that varies between processes for identical
            // controlled inputs is what the C11 check reports.
            println!("NOTE: run {i} produced different library output in another process (uncontrolled nondeterminism; see the C11 check)");
        }
    }
    if let Some(f) = &found {
        violations = 1;
        println!(
            "violation found in run {} (clause {}): {}",
            f.run, f.violation.clause, f.violation.detail
        );
        let (min_s, min_v, stats) = if f.violation.signature == "uncontrolled:process" {
            (f.scenario.clone(), f.violation.clone(), minimize::MinStats::default())
        } else {
            minimize::minimise(prop, &f.scenario, &f.violation, th, env_u64("VERIF_MIN_BUDGET_S").unwrap_or(120) as f64)
        };
        let path = match write_replay(prop, seed, tier, f, &min_s, &min_v, &stats) {
            Ok(p) => p,
            Err(e) => {
                eprintln!("HARNESS ERROR: cannot write replay file: {e}");
                return 2;
            }
        };
        // the replay file must reproduce in a fresh process
        let exe = std::env::current_exe().unwrap();
        let replays = |p: &str| -> bool {
            match Command::new(&exe).args(["replay", p]).output() {
                Ok(o) => o.status.code() == Some(1),
                Err(_) => false,
            }
        };
        let mut path = path;
        let mut min_v = min_v;
        let mut reproduced = f.violation.signature == "uncontrolled:process" || replays(&path);
        if !reproduced {
            // the minimised scenario may have lost the failure (possible when the violation
            // depends on state outside the seams): fall back to the scenario as generated
            match write_replay(prop, seed, tier, f, &f.scenario, &f.violation, &minimize::MinStats::default()) {
                Ok(p) => {
                    path = p;
                    min_v = f.violation.clone();
                    reproduced = replays(&path);
                }
                Err(e) => {
                    eprintln!("HARNESS ERROR: cannot write replay file: {e}");
                    return 2;
                }
            }
        }
        if !reproduced {
            println!("NOTE: the violation was observed in this process but {path} did not reproduce it in a fresh process (64 attempts): it depends on something outside the simulator's seams");
        }
        println!("{}", min_v.detail);
        if !min_v.left.is_empty() {
            println!("--- left\n{}--- right\n{}", min_v.left, min_v.right);
        }
        println!("VIOLATION property={} replay={}", prop.id(), path);
        violation_json = J::obj()
            .set("run", J::u(f.run as u64))
            .set("replay", J::s(path))
            .set("violation", min_v.to_json());
        exit = 1;
    }
    for (sig, (run, what)) in &known_hits {
        println!("KNOWN-FINDING: property={} {} (signature {sig}, first seen in run {run})", prop.id(), what);
    }

    // ------------------------------------------------------------------ evidence
    let wall = t0.elapsed().as_secs_f64();
    let (rule, explain) = match prop {
        Prop::C11 => (
            "A case is one simulated run: a generated project (1-40 files, thorough up to 90, from a collision-prone universe with look-alike keys) executed 5-9 times with different insertion orders, hash-key policies/keys (seam H1), caller threads and repetition counts, plus one verbatim twin. Distinct = distinct scenario digest. Non-trivial = the project contains an order-sensitive constellation (a file with >= 2 distinct imports/forward declarations, an ambiguous simple name, a forward declaration clashing with >= 2 imports, >= 2 files with one key, or >= 2 diagnostics on one line) AND at least two executions differ in hash keys or insertion order.",
            "oracle: every observation equals the canonical execution's (library ==); diagnostics ascending by (line, column) in every result; verbatim twin equal",
        ),
        Prop::C12 => (
            "A case is one simulated run: a history of 3-41 (thorough: up to 91) API calls (add/replace/re-add/revert, remove live/absent, validate x r, caller warm-up, disk write, add_file with a fault plan) on one long-lived Parser<PathBuf>, issued by 1-4 caller threads under one hash-key policy; after every step (or only at validate steps) the parser is compared with a fresh parser built from the reference model. Distinct = distinct scenario digest. Non-trivial = the history contains a replace, a remove, or a failed load that is followed by an observation, with >= 2 files live at some point.",
            "oracle clauses: add_file result vs. what the disk delivered; key set and id tags; equality with a fresh parser (4 fresh parsers must be unanimous); attribution by serial; idempotence; no panic that a fresh parser does not share",
        ),
        Prop::C13 => (
            "A case is one simulated run: a perturbation-heavy history on a project whose files import one another; at every observed state each file's facts (own text; per import: set of kinds registered by live files, from isolated single-file parses) are computed. Distinct = distinct scenario digest. Non-trivial = at least one pair of observed states in which some file kept text and facts while another file changed, in a project where some live file has an import registered by another file.",
            "oracle clauses: equal (text, facts) across observed states => equal result; result in the project == result with all other files replaced by empty stub items of the registered keys and kinds",
        ),
    };
    let hours = (batch_wall / 3600.0).max(1e-9);
    let mut faults = J::obj();
    let mut probes = J::obj();
    let mut others = J::obj();
    for (k, v) in &counters {
        if k.starts_with("fault_") {
            faults.put(k.clone(), J::u(*v));
        } else if k.starts_with("probe_") {
            probes.put(k.clone(), J::u(*v));
        } else {
            others.put(k.clone(), J::u(*v));
        }
    }
    let coverage = J::obj()
        .set("evaluations", J::u(evaluations))
        .set("distinct_nontrivial", J::u(nontrivial.len() as u64))
        .set("distinct_scenarios", J::u(distinct_all.len() as u64))
        .set("rule", J::s(rule))
        .set("oracle", J::s(explain))
        .set("samples", J::Arr(samples))
        .set("exhaustive", J::Bool(false))
        .set("simulated_runs", J::u(evaluations))
        .set("runs_not_executed_wall_cap", J::u(capped))
        .set("runs_per_hour", J::u((evaluations as f64 / hours) as u64))
        .set("seeds", J::obj().set("base_seed", J::u_str(seed)).set("run_indices", J::s(format!("0..{n}"))).set("derivation", J::s("run seed = splitmix(base seed, property, run index)")))
        .set("logical_steps", J::u(steps))
        .set("executions", J::u(executions))
        .set("simulated_time", J::s("n/a: the system has no clock, timer or deadline; progress is counted in logical steps (API calls)"))
        .set("faults_fired", faults)
        .set("probes", probes)
        .set("counters", others)
        .set("distinct_states", J::u(states.len() as u64))
        .set("distinct_transitions", J::u(transitions.len() as u64))
        .set("state_measure", J::s(if prop == Prop::C11 { "C11: distinct_states = distinct execution schedules (script of API calls incl. detours, caller thread of every call, hash-key policy and key, repetitions, thread reuse and warm-up); transitions n/a" } else { "abstract state = live id -> (has tree, key, kind, number of imports); transition = (state, operation kind, fault kind that fired)" }))
        .set("selfcheck_determinism", selfcheck_json)
        .set("seam_audit", audit_json)
        .set("known_findings_matched", J::Arr(known_hits.iter().map(|(s, (r, wh))| J::obj().set("signature", J::s(s.clone())).set("first_run", J::u(*r as u64)).set("what", J::s(wh.clone()))).collect()))
        .set("violation", violation_json)
        .set(
            "components",
            J::obj()
                .set("real", scenario::jstr_arr(&[
                    "aidl-parser crate, whole (lexer, LALR parser, tree, validation) built from /repo's working tree with feature verif-hooks",
                    "lalrpop-util, regex, line-col, unicode-segmentation",
                    "std HashMap/HashSet (hashbrown): probing, growth, tombstones, iteration, clone",
                    "std Read::read_to_string incl. EINTR retry and UTF-8 validation",
                    "OS threads as callers (token passing; the simulator picks who runs)",
                    "real file system for pass-through runs (thorough tier only)",
                ]))
                .set("stub", scenario::jstr_arr(&[
                    "hash-key source and hash function of the library's tables (seam H1: RandomState -> keyed mixer with simulator-chosen keys)",
                    "file open + byte delivery of add_file (seam H2: File::open -> simulated disk with fault plans), except pass-through runs",
                ])),
        );
    let ev = J::obj()
        .set("property_id", J::s(prop.id()))
        .set("tier", J::s(tier))
        .set("seed", J::u(seed))
        .set("level", J::s("exploration"))
        .set("coverage", coverage)
        .set(
            "assumptions",
            scenario::jstr_arr(&[
                "seeded sampling, not enumeration: a clean batch is evidence, not proof",
                "substituting the hash function (SipHash-1-3 -> keyed mixer) does not hide an effect only SipHash would show",
                "texts are mostly ASCII; non-ASCII only in banner comments, string constants and trailing comments (where the known C01 doc-comment panic cannot be hit); quick: <= 40 files, <= 41 steps per run; thorough: <= 90 files, <= 91 steps",
                "the harness's reference model (BTreeMap id -> text), canonical printer and disk are trusted; rustc/std are trusted",
            ]),
        )
        .set("wall_s", J::Float(wall))
        .set("violations", J::Int(violations));
    let evdir = format!("{}/evidence", verif_dir());
    let _ = std::fs::create_dir_all(&evdir);
    let evpath = format!("{evdir}/{}.json", prop.id());
    if let Err(e) = std::fs::write(&evpath, ev.to_string_pretty()) {
        eprintln!("HARNESS ERROR: cannot write {evpath}: {e}");
        return 2;
    }
    println!(
        "{}: runs={evaluations} nontrivial_distinct={} steps={steps} states={} transitions={} wall={wall:.1}s exit={exit}",
        prop.id(),
        nontrivial.len(),
        states.len(),
        transitions.len()
    );
    exit
}
