#!/usr/bin/env python3
"""Generate the deliberate property-breaking patches of /verif/sensitivity/ (DESIGN.md 2.8).

Each mutant is a (file, old, new) substitution applied to a scratch worktree of /repo;
`git diff` of the result is stored as /verif/sensitivity/<name>.diff. Usage:
    make_mutants.py <scratch worktree of /repo>
"""
import subprocess, sys, os

wt = sys.argv[1]
out = "/verif/sensitivity"
os.makedirs(out, exist_ok=True)

M = []

def mut(name, prop, edits, why):
    M.append((name, prop, edits, why))

V = "src/validation.rs"
P = "src/parser.rs"

# ---------------------------------------------------------------- C11
mut("m11-1-sort-by-line-only", "C11", [(V,
    "fr.diagnostics.sort_by_key(|d| d.range.start.line_col);",
    "fr.diagnostics.sort_by_key(|d| d.range.start.line_col.0);")],
    "revert fix 8e8cc57")
mut("m11-2-first-matching-import", "C11", [(V,
    """    if let Some(import_path) = imports.get(&type_.name).or_else(|| {
        imports
            .iter()
            .filter(|import_path| import_path.ends_with(&suffix))
            .min()
    }) {""",
    """    if let Some(import_path) = imports
        .iter()
        .find(|import_path| &type_.name == *import_path || import_path.ends_with(&suffix))
    {""")],
    "revert fix 4e0410e")
mut("m11-3-first-conflicting-import", "C11", [(V,
    """                    .filter(|(_, import)| import.name == declared_parcelable.name)
                    .min_by_key(|(_, import)| import.symbol_range.start.offset)""",
    """                    .find(|(_, import)| import.name == declared_parcelable.name)""")],
    "revert fix c289573")
mut("m11-4-last-file-wins-kind", "C11", [(P,
    "                Some(previous) if rank(previous) <= rank(&kind) => (),",
    "                Some(_) if false => (),")],
    "revert fix e7f0ddd (last file in table order wins)")
mut("m11-5-dedup-through-std-hashset", "C11", [(V,
    "            // Sort diagnostics by start position (line, then column)\n",
    """            let unique: std::collections::HashSet<String> = fr
                .diagnostics
                .iter()
                .map(|d| format!("{:?}{}", d.range.start.line_col, d.message))
                .collect();
            if unique.len() != fr.diagnostics.len() {
                let mut seen = std::collections::HashSet::new();
                let mut order: Vec<String> = unique.into_iter().collect();
                order.retain(|k| seen.insert(k.clone()));
                let old = std::mem::take(&mut fr.diagnostics);
                for k in order {
                    if let Some(d) = old
                        .iter()
                        .find(|d| format!("{:?}{}", d.range.start.line_col, d.message) == k)
                    {
                        fr.diagnostics.push(d.clone());
                    }
                }
            }
            // Sort diagnostics by start position (line, then column)
""")],
    "de-duplicates diagnostics through a std HashSet with RandomState (not behind the seam): only when two diagnostics coincide; the survivors' order at equal positions is then random")
mut("m11-6-sort-unstable-by-line", "C11", [(V,
    "fr.diagnostics.sort_by_key(|d| d.range.start.line_col);",
    "fr.diagnostics.sort_unstable_by_key(|d| (d.range.start.line_col.0, d.message.len()));")],
    "orders by (line, message length): wrong for two diagnostics on one line")
mut("m11-7-validate-count-dependent", "C11", [(V,
    "            // Sort diagnostics by start position (line, then column)\n",
    """            thread_local! {
                static CALLS: std::cell::Cell<usize> = std::cell::Cell::new(0);
            }
            let calls = CALLS.with(|c| {
                c.set(c.get() + 1);
                c.get()
            });
            if calls % 64 == 0 {
                fr.diagnostics.reverse();
            }
            // Sort diagnostics by start position (line, then column)
""")],
    "thread-local call counter: every 64th file validated on a thread gets its equal-position diagnostics in reverse order")

# ---------------------------------------------------------------- C12
mut("m12-1-keys-cache-not-invalidated-on-remove", "C12", [
    (P, "    lalrpop_results: HashMap<ID, ParseFileResult<ID>>,\n}",
        "    lalrpop_results: HashMap<ID, ParseFileResult<ID>>,\n    keys_cache: std::cell::RefCell<Option<HashMap<ast::ItemKey, ast::ResolvedItemKind>>>,\n}"),
    (P, "            lalrpop_results: HashMap::new(),\n        }",
        "            lalrpop_results: HashMap::new(),\n            keys_cache: std::cell::RefCell::new(None),\n        }"),
    (P, "        self.lalrpop_results.insert(id, lalrpop_result);",
        "        self.keys_cache.replace(None);\n        self.lalrpop_results.insert(id, lalrpop_result);"),
    (P, "        let keys = self.collect_item_keys();",
        "        let keys = self\n            .keys_cache\n            .borrow_mut()\n            .get_or_insert_with(|| self.collect_item_keys())\n            .clone();"),
    ], "the `TODO: cache it`: key map cached across validate calls, invalidated by add_content but not by remove_content")
mut("m12-2-no-replace", "C12", [(P,
    "        self.lalrpop_results.insert(id, lalrpop_result);",
    "        self.lalrpop_results.entry(id).or_insert(lalrpop_result);")],
    "an existing id keeps its first content")
mut("m12-3-remove-keeps-treeless", "C12", [(P,
    "        self.lalrpop_results.remove(&id);",
    "        if self.lalrpop_results.get(&id).map(|r| r.ast.is_some()).unwrap_or(false) {\n            self.lalrpop_results.remove(&id);\n        }")],
    "remove_content only removes files that have a tree")
mut("m12-4-add-file-ignores-read-error", "C12", [(P,
    "        file.read_to_string(&mut buffer)?;",
    "        let _ = file.read_to_string(&mut buffer);")],
    "read errors are swallowed: Ok(()) and an (empty) content is added")
mut("m12-5-add-file-lossy", "C12", [(P,
    "        let mut buffer = String::new();\n        file.read_to_string(&mut buffer)?;",
    "        let mut bytes = Vec::new();\n        file.read_to_end(&mut bytes)?;\n        let buffer = String::from_utf8_lossy(&bytes).into_owned();")],
    "invalid UTF-8 is decoded lossily instead of reported")
mut("m12-6-add-file-keyed-by-file-name", "C12", [(P,
    "        self.add_content(PathBuf::from(path.as_ref()), &buffer);",
    "        self.add_content(\n            PathBuf::from(path.as_ref().file_name().unwrap_or_default()),\n            &buffer,\n        );")],
    "id is the file name, not the path given")
mut("m12-7-add-file-missing-is-ok", "C12", [(P,
    "        #[cfg(feature = \"verif-hooks\")]\n        let mut file = crate::verif::open(path.as_ref())?;",
    "        #[cfg(feature = \"verif-hooks\")]\n        let mut file = match crate::verif::open(path.as_ref()) {\n            Ok(f) => f,\n            Err(e) if e.kind() == std::io::ErrorKind::NotFound => {\n                self.remove_content(PathBuf::from(path.as_ref()));\n                return Ok(());\n            }\n            Err(e) => return Err(e),\n        };")],
    "a missing file removes the id and returns Ok")
mut("m12-8-thread-local-parse-cache", "C12", [(P,
    "        let lookup = line_col::LineColLookup::new(content);\n        let mut diagnostics = Vec::new();\n",
    """        thread_local! {
            static LAST: std::cell::RefCell<Option<(String, usize)>> = std::cell::RefCell::new(None);
        }
        let hit = LAST.with(|l| {
            let mut l = l.borrow_mut();
            let key = (format!("{:?}", id), content.len());
            let hit = l.as_ref() == Some(&key);
            *l = Some(key);
            hit
        });
        if hit && self.lalrpop_results.contains_key(&id) {
            return;
        }
        let lookup = line_col::LineColLookup::new(content);
        let mut diagnostics = Vec::new();
""")],
    "per-thread 'same id, same length, twice in a row' shortcut: a replacement of equal length on the same thread is dropped")
mut("m12-9-partial-buffer-added-on-error", "C12", [(P,
    "        file.read_to_string(&mut buffer)?;\n",
    "        if let Err(e) = file.read_to_string(&mut buffer) {\n            if e.kind() != std::io::ErrorKind::InvalidData {\n                self.add_content(PathBuf::from(path.as_ref()), &buffer);\n            }\n            return Err(e);\n        }\n")],
    "on a read error the error is reported but the (empty) buffer is added first")

# ---------------------------------------------------------------- C13
mut("m13-1-resolved-shared-across-files", "C13", [
    (V, "    let defined = keys;\n",
        "    let defined = keys;\n    let mut all_resolved: HashSet<String> = HashSet::new();\n"),
    (V, """            // Check imports (e.g. unresolved, unused, duplicated)
            let import_map = check_imports(&ast.imports, &resolved, &defined, &mut fr.diagnostics);""",
        """            all_resolved.extend(resolved.iter().cloned());
            let resolved = all_resolved.clone();

            // Check imports (e.g. unresolved, unused, duplicated)
            let import_map = check_imports(&ast.imports, &resolved, &defined, &mut fr.diagnostics);"""),
    ], "the set of resolved keys accumulates over the per-file loop: 'unused import' depends on files validated earlier")
mut("m13-2-kind-from-members", "C13", [(P,
    "            let kind = f.item.get_kind();\n",
    "            let kind = match &f.item {\n                ast::Item::Parcelable(p) if p.elements.is_empty() => {\n                    ast::ResolvedItemKind::ForwardDeclaredParcelable\n                }\n                i => i.get_kind(),\n            };\n")],
    "an imported parcelable without members is registered as forward-declared: importers' trees depend on the body of the imported item")
mut("m13-3-unknown-when-import-has-errors", "C13", [(P,
    "        for f in self.lalrpop_results.values().flat_map(|fr| &fr.ast) {\n",
    "        for f in self\n            .lalrpop_results\n            .values()\n            .filter(|fr| fr.diagnostics.is_empty())\n            .flat_map(|fr| &fr.ast)\n        {\n")],
    "files with recovered syntax errors are not registered: an importer's result depends on the imported file's body")
mut("m13-4-defined-dropped-when-many-files", "C13", [(V,
    "    let defined = keys;\n",
    "    let mut defined = keys;\n    if lalrpop_results.len() > 5 {\n        let n = lalrpop_results.len();\n        defined.retain(|k, _| k.len() % n != 0);\n    }\n")],
    "with more than five files some keys vanish from the registry depending on the number of files")

# ---------------------------------------------------------------- property-preserving changes
# (prop "NEUTRAL": every check must stay quiet - exit 0, no VIOLATION line)
mut("n01-add-file-via-fs-read-to-string", "NEUTRAL", [(P,
    """        #[cfg(not(feature = "verif-hooks"))]
        let mut file = std::fs::File::open(path.as_ref())?;
        #[cfg(feature = "verif-hooks")]
        let mut file = crate::verif::open(path.as_ref())?;
        let mut buffer = String::new();
        file.read_to_string(&mut buffer)?;
""",
    """        let buffer = std::fs::read_to_string(path.as_ref())?;
"""), (P, "    io::Read,\n    path::{Path, PathBuf},\n};\n#[cfg(feature", "    path::{Path, PathBuf},\n};\n#[cfg(feature"),
      (P, "        io::Read,\n        path::{Path, PathBuf},\n    },\n};", "        path::{Path, PathBuf},\n    },\n};")],
    "refactoring that bypasses the disk seam H2 entirely")
mut("n02-prefer-largest-matching-import", "NEUTRAL", [(V,
    "            .filter(|import_path| import_path.ends_with(&suffix))\n            .min()",
    "            .filter(|import_path| import_path.ends_with(&suffix))\n            .max()")],
    "another deterministic choice among ambiguous imports")
mut("n03-other-kind-rank", "NEUTRAL", [(P,
    "                ast::ResolvedItemKind::Interface => 0,\n                ast::ResolvedItemKind::Parcelable => 1,\n                ast::ResolvedItemKind::Enum => 2,",
    "                ast::ResolvedItemKind::Interface => 2,\n                ast::ResolvedItemKind::Parcelable => 0,\n                ast::ResolvedItemKind::Enum => 1,")],
    "another fixed precedence for keys defined by several files")
mut("n04-correct-keys-cache", "NEUTRAL", [
    (P, "    lalrpop_results: HashMap<ID, ParseFileResult<ID>>,\n}",
        "    lalrpop_results: HashMap<ID, ParseFileResult<ID>>,\n    keys_cache: std::sync::Mutex<Option<HashMap<ast::ItemKey, ast::ResolvedItemKind>>>,\n}"),
    (P, "            lalrpop_results: HashMap::new(),\n        }",
        "            lalrpop_results: HashMap::new(),\n            keys_cache: std::sync::Mutex::new(None),\n        }"),
    (P, "        self.lalrpop_results.insert(id, lalrpop_result);",
        "        *self.keys_cache.get_mut().unwrap() = None;\n        self.lalrpop_results.insert(id, lalrpop_result);"),
    (P, "        self.lalrpop_results.remove(&id);",
        "        *self.keys_cache.get_mut().unwrap() = None;\n        self.lalrpop_results.remove(&id);"),
    (P, "        let keys = self.collect_item_keys();",
        "        let keys = self\n            .keys_cache\n            .lock()\n            .unwrap()\n            .get_or_insert_with(|| self.collect_item_keys())\n            .clone();"),
    ], "a key-table cache that IS invalidated by every add and remove")
mut("n05-sort-by-position-then-message", "NEUTRAL", [(V,
    "fr.diagnostics.sort_by_key(|d| d.range.start.line_col);",
    "fr.diagnostics.sort_by(|a, b| {\n                (a.range.start.line_col, &a.message).cmp(&(b.range.start.line_col, &b.message))\n            });")],
    "a stricter total order of diagnostics")
mut("n06-add-file-read-to-end", "NEUTRAL", [(P,
    "        let mut buffer = String::new();\n        file.read_to_string(&mut buffer)?;",
    "        let mut bytes = Vec::new();\n        file.read_to_end(&mut bytes)?;\n        let buffer = String::from_utf8(bytes)\n            .map_err(|e| std::io::Error::new(std::io::ErrorKind::InvalidData, e))?;")],
    "another correct way of reading a UTF-8 file")
mut("n07-new-consistent-diagnostic", "NEUTRAL", [(V,
    "            // Check methods (e.g.: return type of async methods)\n",
    """            if let ast::Item::Interface(ref interface) = ast.item {
                if interface.elements.is_empty() {
                    fr.diagnostics.push(Diagnostic {
                        kind: DiagnosticKind::Warning,
                        range: interface.symbol_range.clone(),
                        message: format!("Interface `{}` is empty", interface.name),
                        context_message: Some("empty interface".to_owned()),
                        hint: None,
                        related_infos: Vec::new(),
                    });
                }
            }

            // Check methods (e.g.: return type of async methods)
""")],
    "a new diagnostic that depends on the file's own text only")
mut("n08-validate-files-in-sorted-key-order", "NEUTRAL", [(V,
    "    lalrpop_results\n        .into_iter()\n        .map(|(id, mut fr)| {",
    "    let mut entries: Vec<(ID, ParseFileResult<ID>)> = lalrpop_results.into_iter().collect();\n    entries.sort_by_key(|(id, _)| format!(\"{:?}\", id));\n    entries\n        .into_iter()\n        .map(|(id, mut fr)| {")],
    "per-file loop in a fixed order")
mut("n09-open-twice", "NEUTRAL", [(P,
    "        #[cfg(feature = \"verif-hooks\")]\n        let mut file = crate::verif::open(path.as_ref())?;",
    "        #[cfg(feature = \"verif-hooks\")]\n        let mut file = {\n            drop(crate::verif::open(path.as_ref())?);\n            crate::verif::open(path.as_ref())?\n        };")],
    "the file is opened twice (existence check, then read)")

for name, prop, edits, why in M:
    subprocess.check_call(["git", "-C", wt, "checkout", "-q", "--", "."])
    for f, old, new in edits:
        p = os.path.join(wt, f)
        s = open(p).read()
        if old not in s:
            print("!! %s: pattern not found in %s" % (name, f))
            sys.exit(1)
        open(p, "w").write(s.replace(old, new, 1))
    d = subprocess.check_output(["git", "-C", wt, "diff", "--", "src", "Cargo.toml"]).decode()
    open(os.path.join(out, name + ".diff"), "w").write("# property: %s\n# %s\n" % (prop, why) + d)
    print("wrote", name)
subprocess.check_call(["git", "-C", wt, "checkout", "-q", "--", "."])
