#!/bin/bash
# Regression over every kept change: seeded/<id>/patch.diff against the check of the property it
# aims at (must exit 1), sensitivity/m*.diff likewise, sensitivity/n*.diff against all three
# checks (must exit 0). Usage: tools/regress.sh [seeded|own|neutral]...
cd /verif || exit 2
what="${*:-seeded own neutral}"
tmp=$(mktemp -d)
list=()
for w in $what; do
  case $w in
    seeded) for d in seeded/*/; do id=$(basename $d); p=$(python3 -c "import json;print(json.load(open('$d/meta.json'))['property'])"); (echo "# property: $p"; cat $d/patch.diff) > $tmp/seeded-$id.diff; list+=($tmp/seeded-$id.diff); done;;
    own) list+=(sensitivity/m*.diff);;
    neutral) list+=(sensitivity/n*.diff);;
  esac
done
tools/run_mutants.sh "${list[@]}" | awk '{ok="??"; if ($0 ~ /^n[0-9]/) { ok=($3=="exit=0")?"quiet":"ALARM" } else { ok=($3=="exit=1")?"caught":"MISSED" } print ok, $0}' | cut -c1-200
rm -rf $tmp
