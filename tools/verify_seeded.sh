#!/bin/bash
# Verify a seeded change: tools/verify_seeded.sh <dir with patch.diff + demo.rs> <scratch worktree of /repo>
# Confirms: builds with and without the feature, existing suite passes with the change, demo fails with / passes without.
d=$(realpath "$1"); wt=$2
cd "$wt" || exit 2
git checkout -q -- . ; rm -f tests/demo.rs
git apply "$d/patch.diff" || { echo "patch does not apply"; exit 2; }
b1=ok; cargo build --offline >/dev/null 2>&1 || b1=FAIL
b2=ok; cargo build --offline --features verif-hooks >/dev/null 2>&1 || b2=FAIL
suite=pass; cargo test --workspace --no-fail-fast --offline >/tmp/vs-suite.log 2>&1 || suite=FAIL
cp "$d/demo.rs" tests/demo.rs
with=pass; cargo test --offline --test demo >/tmp/vs-with.log 2>&1 || with=fail
git checkout -q -- .
without=pass; cargo test --offline --test demo >/tmp/vs-without.log 2>&1 || without=fail
rm -f tests/demo.rs
echo "$(basename $d): build=$b1 build_hooks=$b2 suite_with_change=$suite demo_with_change=$with demo_without_change=$without"
