#!/bin/bash
# Sensitivity: apply each patch (sensitivity/*.diff or the given files) to /repo, run the quick
# check of the property named in its header (or all three with ALL=1), revert. Prints one line per patch.
#   tools/run_mutants.sh [patch...]
# Env: WT=<scratch worktree of /repo> also runs the guard-off test suite there (realism check).
cd /verif || exit 2
patches=("$@"); [ ${#patches[@]} -eq 0 ] && patches=(sensitivity/*.diff)
if [ -n "$(git -C /repo status --porcelain --untracked-files=no)" ]; then echo "/repo is dirty"; exit 2; fi
for p in "${patches[@]}"; do
    prop=$(sed -n 's/^# property: //p' "$p" | head -1)
    name=$(basename "$p" .diff)
    suite="-"
    if [ -n "${WT:-}" ]; then
        git -C "$WT" checkout -q -- . && git -C "$WT" apply "$(realpath "$p")" 2>/dev/null
        if (cd "$WT" && cargo test --workspace --no-fail-fast --offline >/tmp/mut-suite.log 2>&1); then suite=pass; else suite=FAIL; fi
        git -C "$WT" checkout -q -- .
    fi
    if ! git -C /repo apply "$(realpath "$p")"; then echo "$name: patch does not apply"; continue; fi
    props="$prop"; [ -n "${ALL:-}" ] && props="C11 C12 C13"; [ "$prop" = NEUTRAL ] && props="C11 C12 C13"
    for q in $props; do
        t0=$(date +%s)
        out=$(./check.sh "$q" quick 2>&1); code=$?
        t1=$(date +%s)
        viol=$(echo "$out" | grep -m1 "^violation found" | cut -c1-160)
        echo "$name check=$q exit=$code suite=$suite wall=$((t1-t0))s $viol"
    done
    git -C /repo checkout -- .
done
